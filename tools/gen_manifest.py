#!/usr/bin/env python3
"""Regenerates /verif/MANIFEST.json from the table below (kept in one place so the
manifest is always valid and consistent with the harness packages that exist)."""
import json, os, subprocess

VERIF = os.path.dirname(os.path.dirname(os.path.abspath(__file__)))
CLAIMED = {}   # id -> dict(technique, text, note, design_ref)
exec(open(os.path.join(VERIF, "tools", "manifest_table.py")).read())

props = [json.loads(l) for l in open(os.path.join(VERIF, "properties.jsonl"))]
checks, na = [], []
for p in props:
    pid = p["id"]
    if pid in CLAIMED and os.path.isdir(os.path.join(VERIF, "harness", "props", pid.lower())):
        c = CLAIMED[pid]
        checks.append({
            "property_id": pid,
            "quick_cmd": "./check %s quick" % pid,
            "thorough_cmd": "./check %s thorough" % pid,
            "evidence_file": "/verif/evidence/%s.json" % pid,
            "replay_cmd_template": "./check %s --replay {path}" % pid,
            "engine": "harness",
            "level_claimed": {"category": "exploration", "text": c["text"], "design_ref": c["design_ref"]},
            "level_note": c["note"],
            "technique": c["technique"],
        })
    else:
        na.append({"property_id": pid, "reason": NOT_YET.get(pid, "check not built yet in this session (planned in DESIGN.md section 3); not claimed until its harness package exists")})

hook_commits = []
try:
    out = subprocess.run(["git", "-C", "/repo", "log", "--format=%H %s"], capture_output=True, text=True).stdout
    hook_commits = [l.split()[0] for l in out.splitlines() if " hook:" in l or l.split(" ", 1)[1].startswith("verif hook")]
except Exception:
    pass

m = {
    "version": 1,
    "setup_cmd": "./check --setup",
    "hooks": {
        "guard": "verif",
        "enable": "go test -c -tags verif (done by ./check; the harness module replaces github.com/theQRL/go-qrllib with /repo)",
        "baseline_off_cmd": "cd /repo && GOPROXY=off GOSUMDB=off GOTOOLCHAIN=local go test -json -vet=off -count=1 -timeout 25m ./...",
        "source_commits": hook_commits,
        "add_only": True,
    },
    "engines": [{
        "name": "harness",
        "path": "/verif/harness",
        "serves_properties": [c["property_id"] for c in checks],
        "kind_free_text": "Go test binaries (one package per property) driven by /verif/check: pgregory.net/rapid v1.3.0 generators and state machines, exhaustive enumerators for finite sub-spaces, native go fuzz targets in the thorough tier; oracles are independent reference models (harness/ref), round trips, differential and metamorphic relations",
    }],
    "checks": checks,
    "not_applicable": na,
    "notes": "Property-based testing and fuzzing only. See DESIGN.md. Known findings / fixed defects: KNOWN_FINDINGS.txt.",
}
with open(os.path.join(VERIF, "MANIFEST.json"), "w") as f:
    json.dump(m, f, indent=1)
    f.write("\n")
print("claimed:", [c["property_id"] for c in checks], "not_applicable:", [n["property_id"] for n in na])
