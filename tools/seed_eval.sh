#!/bin/bash
# tools/seed_eval.sh <src-dir> <seed-id> <property-id> [more property ids to also run]
#   <src-dir>  holds patch.diff, demo_test.go, NOTES.md as delivered by a sub-agent
#   Confirms (in a throw-away worktree outside /repo and /verif) that the change compiles, the pinned suite still
#   passes, the demonstration fails with the change and passes without; then applies the patch to /repo, runs the
#   quick check(s), reverts, and files everything under /verif/seeded/<seed-id>/.
set -u
src=$(readlink -f "$1"); sid=$2; shift 2; props="$*"
export GOFLAGS=-mod=mod GOPROXY=off GOSUMDB=off GOTOOLCHAIN=local
REPO=${SEED_REPO:-/repo}   # SEED_REPO: another checkout of the same commit to apply the change in (the check is then run with VERIF_REPO)
[ -n "$(git -C $REPO status --porcelain)" ] && { echo "$REPO not clean"; exit 3; }
prev=${SEED_CONFIRM_FROM:-}/$sid/meta.json
if [ -n "${SEED_CONFIRM_FROM:-}" ] && [ -f "$prev" ]; then
  # the confirmation (suite, demonstration with and without the change) was done by an earlier evaluation of the
  # same files against the same /repo commit: take it from there and only re-run the checks
  SKIP=1
  ok_clean=$(jq -r .confirmed.demo_passes_on_pristine $prev); ok_mut=$(jq -r .confirmed.demo_fails_with_change $prev); ok_suite=$(jq -r .confirmed.suite_passes_with_change $prev)
  demo_dir=$(jq -r .demo_package_dir $prev)
  cmp -s $src/patch.diff ${SEED_CONFIRM_FROM}/$sid/patch.diff || { echo "patch differs from the confirmed one"; exit 3; }
  echo "confirmed (earlier evaluation): demo_passes_on_pristine=$ok_clean demo_fails_with_change=$ok_mut suite_passes_with_change=$ok_suite"
fi
wt=/tmp/seedwt-$sid
cleanup() { git -C $REPO checkout -- . 2>/dev/null; git -C $REPO clean -fdq 2>/dev/null; git -C /repo worktree remove --force $wt 2>/dev/null; }
trap cleanup EXIT
if [ -z "${SKIP:-}" ]; then
rm -rf $wt; git -C /repo worktree add -q --detach $wt HEAD || exit 3
demo_dir=$(head -3 $src/demo_test.go | grep -oE '(xmss|dilithium|misc|common|qrl|qrllib-js/[a-z]+)' | head -1)
[ -z "$demo_dir" ] && demo_dir=$(grep -m1 '^package ' $src/demo_test.go | awk '{print $2}' | sed 's/_test$//')
case "$demo_dir" in xmssjs) demo_dir=qrllib-js/xmssjs;; dilithiumjs) demo_dir=qrllib-js/dilithiumjs;; esac
echo "demo package dir: $demo_dir"
racef=""; grep -qi 'race' $src/NOTES.md 2>/dev/null && [[ "$props" == *C15* ]] && racef="-race"
cp $src/demo_test.go $wt/$demo_dir/seeded_demo_test.go
demo_clean=$(cd $wt/$demo_dir && go test $racef -vet=off -count=1 -run 'Seeded|Demo|Seed' . 2>&1 | tail -3)
echo "DEMO on pristine: $demo_clean"
git -C $wt apply $src/patch.diff || { echo "patch does not apply"; exit 3; }
build=$(cd $wt && go build ./... 2>&1 | tail -3)
demo_mut=$(cd $wt/$demo_dir && go test $racef -vet=off -count=1 -run 'Seeded|Demo|Seed' . 2>&1 | tail -5)
echo "DEMO with change: $demo_mut"
rm $wt/$demo_dir/seeded_demo_test.go
suite=$(cd $wt && go test -vet=off -count=1 ./... 2>&1 | grep -v 'no test files')
echo "SUITE with change: $suite"
ok_clean=0; echo "$demo_clean" | grep -q '^ok' && ok_clean=1
ok_mut=0; echo "$demo_mut" | grep -qE 'FAIL|panic' && ok_mut=1
ok_suite=1; echo "$suite" | grep -qE 'FAIL|panic' && ok_suite=0
[ -n "$build" ] && ok_suite=0
echo "confirmed: demo_passes_on_pristine=$ok_clean demo_fails_with_change=$ok_mut suite_passes_with_change=$ok_suite"
git -C /repo worktree remove --force $wt
fi
# run the checks against /repo with the patch applied
git -C $REPO apply $src/patch.diff || exit 3
results=""
for p in $props; do
  out=$(cd ${VERIF_DIR:-/verif} && VERIF_EVIDENCE_DIR=/tmp/mutant_evidence VERIF_REPO=${SEED_REPO:-} ./check $p quick 2>&1); rc=$?
  echo "---- $p quick rc=$rc"; echo "$out" | grep -E 'VIOLATION|INCONCLUSIVE|held' | cut -c1-400 | head -8
  first=$(echo "$out" | grep -m1 'VIOLATION-CANDIDATE' | cut -c1-300 | python3 -c 'import json,sys; print(json.dumps(sys.stdin.read().rstrip("\n"))[1:-1])')
  results="$results{\"check\":\"$p quick\",\"exit\":$rc,\"first_report\":\"$first\"},"
done
git -C $REPO checkout -- . ; git -C $REPO clean -fdq
dst=${SEED_DST:-/verif/seeded}/$sid; mkdir -p $dst
cp $src/patch.diff $dst/patch.diff; cp $src/demo_test.go $dst/demo_test.go; cp $src/NOTES.md $dst/NOTES.md 2>/dev/null
cat > $dst/meta.json <<META
{
 "seed_id": "$sid",
 "property": "$(echo $props | awk '{print $1}')",
 "source": "independent sub-agent given only the property text and a scratch worktree",
 "needs_to_manifest": "see NOTES.md",
 "demo_package_dir": "$demo_dir",
 "confirmed": {"demo_passes_on_pristine": $ok_clean, "demo_fails_with_change": $ok_mut, "suite_passes_with_change": $ok_suite},
 "checks_run": [${results%,}],
 "ran": "tools/seed_eval.sh (scratch worktree for suite+demo, then git apply in /repo, ./check <ID> quick, git checkout)"
}
META
echo "filed under $dst"
