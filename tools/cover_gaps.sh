#!/bin/bash
# tools/cover_gaps.sh [tier]  - exploration aid, not a check: runs every check's tier (default quick) with the library
# instrumented for statement coverage (VERIF_COVER), merges the profiles and lists the library functions and blocks no
# generated case reached. Evidence of these runs goes to a scratch directory, never to /verif/evidence.
set -u
tier=${1:-quick}; out=${COVER_OUT:-/tmp/cov}; mkdir -p $out ${out}_ev
export GOFLAGS=-mod=mod GOPROXY=off GOSUMDB=off GOTOOLCHAIN=local
cd "$(dirname "$0")/.."
if [ -z "${COVER_MERGE_ONLY:-}" ]; then
  for d in harness/props/c[0-9][0-9]; do id=$(basename $d | tr a-z A-Z)
    VERIF_COVER=$out VERIF_EVIDENCE_DIR=${out}_ev ./check $id $tier 2>&1 | tail -1
  done
fi
python3 - $out <<'PY'
import glob, sys, collections
out = sys.argv[1]; blocks = collections.defaultdict(int); stm = {}
for f in glob.glob(out + "/*.out"):
    for l in open(f):
        if l.startswith("mode:"): continue
        k, n, c = l.rsplit(" ", 2); blocks[k] += int(c); stm[k] = int(n)
with open(out + "/merged.prof", "w") as w:
    w.write("mode: count\n")
    for k in sorted(blocks): w.write("%s %d %d\n" % (k, stm[k], blocks[k]))
tot = sum(stm.values()); cov = sum(stm[k] for k in blocks if blocks[k])
print("library statements reached by generated cases: %d / %d" % (cov, tot))
PY
cd harness && go tool cover -func=$out/merged.prof | grep -v 'verif_hooks' | awk '$NF != "100.0%"' 
