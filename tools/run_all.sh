#!/bin/bash
# tools/run_all.sh [quick|thorough] [ids...] — run checks on the UNCHANGED tree (refuses if /repo is dirty),
# summarise exit codes and validate every evidence file against the schema.
tier=${1:-quick}; shift
ids=${@:-$(cd /verif && ./check --list)}
if [ -n "$(git -C /repo status --porcelain)" ]; then echo "/repo not clean"; exit 3; fi
cd /verif
fail=0
for id in $ids; do
  s=$(date +%s); out=$(./check $id $tier 2>&1); rc=$?; e=$(( $(date +%s) - s ))
  echo "$id rc=$rc ${e}s :: $(echo "$out" | tail -1)"
  if [ $rc -ne 0 ]; then fail=1; echo "$out" | tail -20; fi
done
python3-vt - <<'PY'
import json, jsonschema, glob
sch = json.load(open('/root/.vp/EVIDENCE.schema.json'))
for f in sorted(glob.glob('/verif/evidence/*.json') + glob.glob('/verif/evidence/by-tier/*.json')):
    try:
        jsonschema.validate(json.load(open(f)), sch)
    except Exception as e:
        print("EVIDENCE INVALID", f, str(e)[:200])
print("evidence files validated")
PY
exit $fail
