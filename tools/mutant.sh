#!/bin/bash
# tools/mutant.sh <patch-file> <ID> [tier]  — sensitivity run: apply a patch to /repo, make sure the
# repository's own suite still passes, run the check (a violation is the expected outcome), revert.
set -u
patch=$(readlink -f "$1"); id=$2; tier=${3:-quick}
export GOFLAGS=-mod=mod GOPROXY=off GOSUMDB=off GOTOOLCHAIN=local
if [ -n "$(git -C /repo status --porcelain)" ]; then echo "/repo not clean"; exit 3; fi
git -C /repo apply "$patch" || { echo "patch does not apply"; exit 3; }
trap 'git -C /repo checkout -- . ; git -C /repo clean -fdq' EXIT
if [ -z "${SKIP_SUITE:-}" ]; then
  (cd /repo && go build ./... && go test -vet=off -count=1 ./... >/tmp/mutant_suite.log 2>&1) && echo "SUITE: passes on mutant" || { echo "SUITE: FAILS on mutant (not a valid seeded change)"; tail -20 /tmp/mutant_suite.log; }
fi
cd /verif && VERIF_EVIDENCE_DIR=/tmp/mutant_evidence ./check "$id" "$tier"; rc=$?
echo "CHECK-EXIT=$rc"
exit 0
