NOT_YET = {}
TB = "Trusted base: Go 1.23.5 toolchain, crypto/sha256 and golang.org/x/crypto/sha3 v0.17.0 (shared by library and reference models), pgregory.net/rapid v1.3.0, the reference models in /verif/harness/ref (anchored on the vectors pinned in the repository's own tests). A search, not a proof: passing means the property held on every generated / enumerated case."
CLAIMED["C06"] = dict(
    technique="property-based differential testing (rapid-drawn seeds/messages/histories, whole-life enumeration of every index) against an independent full-Merkle-tree reference implementation",
    text="Generated-input search with a byte-equality oracle: the library's public key and the signature at EVERY index of a key's life (3 hash functions, h=4..8 quick, ..12 thorough) and after rapid-generated SetIndex histories are compared with xmssref, a naive full-tree QRL-XMSS that shares no code with the library and reproduces the repository's pinned keys. Exploration level: decides the property on everything generated; says nothing about heights above 12.",
    note=TB, design_ref="DESIGN.md section 3 C06, section 2.1")
