// Package pu ("property utilities") holds generators and small helpers shared by the
// property packages: seeds, messages, hex-in-JSON bytes, library/reference glue.
package pu

import (
	"encoding/hex"
	"encoding/json"
	"fmt"

	"github.com/theQRL/go-qrllib/common"
	"github.com/theQRL/go-qrllib/xmss"
	"pgregory.net/rapid"
	"verifharness/ev"
	"verifharness/ref/xmssref"
)

// HB is a byte string that serialises as hex in replay / evidence JSON.
type HB []byte

func (b HB) MarshalJSON() ([]byte, error) { return json.Marshal(hex.EncodeToString(b)) }
func (b *HB) UnmarshalJSON(d []byte) error {
	var s string
	if err := json.Unmarshal(d, &s); err != nil {
		return err
	}
	x, err := hex.DecodeString(s)
	*b = x
	return err
}

// Short renders a byte string for samples: full when small, prefix+length otherwise.
func Short(b []byte) string {
	if len(b) <= 24 {
		return hex.EncodeToString(b)
	}
	return fmt.Sprintf("%s…(%d bytes)", hex.EncodeToString(b[:16]), len(b))
}

var Hashes = []xmss.HashFunction{xmss.SHA2_256, xmss.SHAKE_128, xmss.SHAKE_256}

func HashName(h xmss.HashFunction) string {
	switch h {
	case xmss.SHA2_256:
		return "SHA2_256"
	case xmss.SHAKE_128:
		return "SHAKE_128"
	case xmss.SHAKE_256:
		return "SHAKE_256"
	}
	return fmt.Sprintf("hash#%d", uint(h))
}

func RefHash(h xmss.HashFunction) xmssref.Hash { return xmssref.Hash(int(h)) }

// Seed48 draws a 48-byte seed: mostly uniform, sometimes degenerate.
func Seed48() *rapid.Generator[[]byte] {
	return rapid.Custom(func(t *rapid.T) []byte {
		kind := rapid.IntRange(0, 9).Draw(t, "seedKind")
		s := make([]byte, 48)
		switch kind {
		case 0:
			// all zero
		case 1:
			for i := range s {
				s[i] = 0xff
			}
		case 2:
			b := rapid.Byte().Draw(t, "fill")
			for i := range s {
				s[i] = b
			}
		case 3:
			s[rapid.IntRange(0, 47).Draw(t, "pos")] = rapid.Byte().Draw(t, "b")
		default:
			copy(s, rapid.SliceOfN(rapid.Byte(), 48, 48).Draw(t, "seed"))
		}
		return s
	})
}

func Arr48(b []byte) (a [common.SeedSize]uint8) { copy(a[:], b); return }

// MsgLens are message lengths that sit on hash-rate / block boundaries of the schemes.
var MsgLens = []int{0, 1, 2, 7, 31, 32, 33, 39, 40, 41, 63, 64, 65, 71, 72, 73, 103, 104, 105, 135, 136, 137, 167, 168, 169, 199, 200, 201, 271, 272, 273}

// LongMsgLens are lengths around buffer sizes an implementation might pool or cap (4 KiB, 8 KiB, 64 KiB).
var LongMsgLens = []int{3967, 3968, 3969, 4000, 4095, 4096, 4097, 5000, 8191, 8192, 8193, 20000, 65536, 70001}

// LifeMsgLen picks the message length for the i-th message of a deterministic stream: mostly the short
// boundary lengths, every 16th message a long one.
func LifeMsgLen(ms uint64, i int) int {
	if (ms+uint64(i))%16 == 0 {
		return LongMsgLens[int((ms/16+uint64(i))%uint64(len(LongMsgLens)))]
	}
	return MsgLens[int((ms+uint64(i)*5)%uint64(len(MsgLens)))]
}

// Msg draws a message: boundary lengths over-represented, content random / constant.
func Msg(maxLen int) *rapid.Generator[[]byte] {
	return rapid.Custom(func(t *rapid.T) []byte {
		var n int
		switch rapid.IntRange(0, 3).Draw(t, "lenKind") {
		case 0, 1:
			n = rapid.SampledFrom(MsgLens).Draw(t, "len")
			if n > maxLen {
				n = maxLen
			}
		case 2:
			n = rapid.IntRange(0, 64).Draw(t, "len")
		default:
			n = rapid.IntRange(0, maxLen).Draw(t, "len")
		}
		m := make([]byte, n)
		switch rapid.IntRange(0, 4).Draw(t, "contentKind") {
		case 0:
			b := rapid.Byte().Draw(t, "fill")
			for i := range m {
				m[i] = b
			}
		default:
			// content from a drawn 64-bit state: cheap for long messages, still shrinkable
			x := rapid.Uint64().Draw(t, "content")
			for i := range m {
				x ^= x << 13
				x ^= x >> 7
				x ^= x << 17
				m[i] = byte(x >> 24)
			}
		}
		return m
	})
}

// DetBytes expands a 64-bit state into n bytes (xorshift); used to build reproducible
// bulk content inside enumerators from a drawn or derived value.
func DetBytes(x uint64, n int) []byte {
	if x == 0 {
		x = 0x9e3779b97f4a7c15
	}
	out := make([]byte, n)
	for i := range out {
		x ^= x << 13
		x ^= x >> 7
		x ^= x << 17
		out[i] = byte(x >> 24)
	}
	return out
}

// NewXMSS builds a library key (SHA256_2X address format, as every caller does).
func NewXMSS(seed []byte, h int, hf xmss.HashFunction) *xmss.XMSS {
	return xmss.NewXMSSFromSeed(Arr48(seed), uint8(h), hf, common.SHA256_2X)
}

// RefPK assembles the 67-byte extended public key from the reference key.
func RefPK(k *xmssref.Key, hf xmss.HashFunction) []byte {
	pk := []byte{byte(uint(hf) & 0xf), byte((k.Height >> 1) & 0xf), 0}
	pk = append(pk, k.Root()...)
	return append(pk, k.PubSeed...)
}

// SpecXMSSVerify is the specification-level acceptance predicate for an extended public
// key: descriptor rules (signature type XMSS, hash id in {0,1,2}, even height 4..30,
// signature length 2180+32h) followed by the independent reference verifier. The
// address-format nibble and the third descriptor byte are not interpreted.
func SpecXMSSVerify(msg, sig, pk []byte) bool {
	if len(pk) != 67 {
		return false
	}
	hash, sigType, height, _ := uint(pk[0]&0xf), uint(pk[0]>>4), int(pk[1]&0xf)*2, uint(pk[1]>>4)
	if sigType != 0 || hash > 2 || height < 4 || height > 30 {
		return false
	}
	if len(sig) != xmssref.SigLen(height) {
		return false
	}
	return xmssref.Verify(xmssref.Hash(hash), height, pk[3:35], pk[35:67], msg, sig)
}

// LibXMSSVerify calls the library and classifies the outcome.
// accepted: returned true. refused: returned false or raised one of its string panics.
func LibXMSSVerify(msg, sig, pk []byte) (accepted bool, out Outcome) {
	var epk [67]byte
	copy(epk[:], pk)
	var res bool
	o := evTry(func() { res = xmss.Verify(msg, sig, epk) })
	return res && !o.Panicked, o
}

type Outcome = ev.Outcome

func evTry(f func()) ev.Outcome { return ev.Try(f) }

// Guard returns a copy of b that sits in a larger allocation: len(copy) == len(b) but the backing array
// continues with 64 sentinel bytes (spare capacity the callee can reach with append or re-slicing). intact()
// reports whether both the visible bytes and the spare capacity are still what they were.
func Guard(b []byte) (g []byte, intact func() bool) { return GuardN(b, 64) }

// GuardN is Guard with a chosen amount of spare capacity (a callee that appends k bytes to its argument only
// writes into the caller's memory when at least k bytes are spare).
func GuardN(b []byte, spare int) (g []byte, intact func() bool) {
	buf := make([]byte, len(b)+spare)
	copy(buf, b)
	for i := len(b); i < len(buf); i++ {
		buf[i] = 0xA5
	}
	orig := append([]byte{}, buf...)
	return buf[:len(b)], func() bool {
		for i := range buf {
			if buf[i] != orig[i] {
				return false
			}
		}
		return true
	}
}
