package pu

import (
	"github.com/theQRL/go-qrllib/dilithium"
	"golang.org/x/crypto/sha3"
	"verifharness/ref/dilref"
)

// DilKey builds the library key for a 48-byte seed.
func DilKey(seed []byte) (*dilithium.Dilithium, error) { return dilithium.NewDilithiumFromSeed(Arr48(seed)) }

// DilRef builds the reference key: zeta = SHAKE256(seed48)[0:32] as the library does.
func DilRef(seed []byte) *dilref.Keys {
	zeta := make([]byte, 32)
	sha3.ShakeSum256(zeta, seed)
	return dilref.KeyGen(zeta)
}

// TraceInfo summarises a reference signing trace: which exits were taken and which rejection
// tests were met with (near-)equality while being the deciding test of their attempt.
type TraceInfo struct {
	Attempts int
	Rejects  map[string]int
	Events   []string // decisive boundary events
}

func Classify(trace []dilref.Attempt) TraceInfo {
	ti := TraceInfo{Attempts: len(trace), Rejects: map[string]int{}}
	for _, a := range trace {
		if a.Reject != "" {
			ti.Rejects[a.Reject]++
		}
		zBad := a.ZNorm >= dilref.Gamma1-dilref.Beta
		r0Bad := a.R0Norm >= dilref.Gamma2-dilref.Beta || a.R1Mismatch
		ct0Bad := a.CT0Norm >= dilref.Gamma2
		switch a.ZNorm {
		case dilref.Gamma1 - dilref.Beta - 1:
			ti.Events = append(ti.Events, "z==bound-1")
		case dilref.Gamma1 - dilref.Beta:
			ti.Events = append(ti.Events, "z==bound")
		}
		if !zBad {
			switch a.R0Norm {
			case dilref.Gamma2 - dilref.Beta - 1:
				if !a.R1Mismatch {
					ti.Events = append(ti.Events, "r0==bound-1")
				}
			case dilref.Gamma2 - dilref.Beta:
				ti.Events = append(ti.Events, "r0==bound")
			}
			if a.R1Mismatch && a.R0Norm < dilref.Gamma2-dilref.Beta {
				ti.Events = append(ti.Events, "r1-mismatch-with-small-r0")
			}
			if !r0Bad && !ct0Bad {
				switch a.Hints {
				case dilref.Omega:
					ti.Events = append(ti.Events, "hints==omega")
				case dilref.Omega + 1:
					ti.Events = append(ti.Events, "hints==omega+1")
				}
			}
		}
	}
	return ti
}
