package pu

import (
	"github.com/theQRL/go-qrllib/dilithium"
	"golang.org/x/crypto/sha3"
	"verifharness/ref/dilref"
)

// DilKey builds the library key for a 48-byte seed.
func DilKey(seed []byte) (*dilithium.Dilithium, error) {
	return dilithium.NewDilithiumFromSeed(Arr48(seed))
}

// DilRef builds the reference key: zeta = SHAKE256(seed48)[0:32] as the library does.
func DilRef(seed []byte) *dilref.Keys {
	zeta := make([]byte, 32)
	sha3.ShakeSum256(zeta, seed)
	return dilref.KeyGen(zeta)
}

// TraceInfo summarises a reference signing trace: which exits were taken and which rejection
// tests were met with (near-)equality while being the deciding test of their attempt.
type TraceInfo struct {
	Attempts int
	Rejects  map[string]int
	Events   []string // decisive boundary events
}

func Classify(trace []dilref.Attempt) TraceInfo {
	ti := TraceInfo{Attempts: len(trace), Rejects: map[string]int{}}
	for _, a := range trace {
		if a.Reject != "" {
			ti.Rejects[a.Reject]++
		}
		zBad := a.ZNorm >= dilref.Gamma1-dilref.Beta
		r0Bad := a.R0Norm >= dilref.Gamma2-dilref.Beta || a.R1Mismatch
		ct0Bad := a.CT0Norm >= dilref.Gamma2
		switch a.ZNorm {
		case dilref.Gamma1 - dilref.Beta - 1:
			ti.Events = append(ti.Events, "z==bound-1")
		case dilref.Gamma1 - dilref.Beta:
			ti.Events = append(ti.Events, "z==bound")
		}
		if !zBad {
			switch a.R0Norm {
			case dilref.Gamma2 - dilref.Beta - 1:
				if !a.R1Mismatch {
					ti.Events = append(ti.Events, "r0==bound-1")
				}
			case dilref.Gamma2 - dilref.Beta:
				ti.Events = append(ti.Events, "r0==bound")
			}
			if a.R1Mismatch && a.R0Norm < dilref.Gamma2-dilref.Beta {
				ti.Events = append(ti.Events, "r1-mismatch-with-small-r0")
			}
			if !r0Bad && !ct0Bad {
				switch a.Hints {
				case dilref.Omega:
					ti.Events = append(ti.Events, "hints==omega")
				case dilref.Omega + 1:
					ti.Events = append(ti.Events, "hints==omega+1")
				}
			}
		}
	}
	return ti
}

// HintChain overwrites the 83-byte hint section of a Dilithium5 signature with the one structure that
// lets a decoder WITHOUT the "count <= omega" guard run off the end of the section: rows 0..row-1 carry
// strictly increasing counts ending at k <= 75, row `row` claims v > 75 positions, the position bytes from
// k upwards are strictly increasing and the eight count bytes themselves continue that strictly increasing
// chain (the decoder reads them as positions once j passes 74). With the guard it is simply rejected.
func HintChain(sig []byte, row int, v byte, seed uint64) []byte {
	const offHint, offCnt = 32 + 7*640, 32 + 7*640 + 75
	o := append([]byte{}, sig...)
	if v < 76 {
		v = 76
	}
	if int(v) > 255-(7-row) {
		v = byte(255 - (7 - row))
	}
	x := seed | 1
	next := func(n int) int { x ^= x << 13; x ^= x >> 7; x ^= x << 17; return int(x>>3) % n }
	// counts of the rows before `row`: strictly increasing, last one = k
	k := 0
	counts := make([]int, 8)
	if row > 0 {
		k = 75 - next(4) // 72..75
		for i := row - 1; i >= 0; i-- {
			counts[i] = k - (row - 1 - i)
		}
	}
	counts[row] = int(v)
	for i := row + 1; i < 8; i++ {
		counts[i] = int(v) + (i - row)
	}
	// positions: rows before `row` get strictly increasing positions inside each row
	pos := 0
	for i := 0; i < row; i++ {
		n := counts[i]
		if i > 0 {
			n -= counts[i-1]
		}
		for j := 0; j < n; j++ {
			o[offHint+pos] = byte(j * 255 / (n + 1)) // increasing within the row
			if j > 0 && o[offHint+pos] <= o[offHint+pos-1] {
				o[offHint+pos] = o[offHint+pos-1] + 1
			}
			pos++
		}
	}
	// positions k..74 of the overflowing row: strictly increasing and below the first count byte
	first := counts[0]
	rem := 75 - k
	for j := 0; j < rem; j++ {
		val := j
		if first-1-rem > 0 {
			val = j + next(first-rem)
		}
		if j > 0 && val <= int(o[offHint+k+j-1]) {
			val = int(o[offHint+k+j-1]) + 1
		}
		o[offHint+k+j] = byte(val)
	}
	for i := 0; i < 8; i++ {
		o[offCnt+i] = byte(counts[i])
	}
	return o
}

// KeyEvents classifies a reference key by the arithmetic corner cases its generation passes through: a coefficient of
// t = A*s1 + s2 that is exactly 0 or q-1, a sum A*s1 + s2 that wraps around 0 or q (the freeze after the addition
// matters), a coefficient exactly on the rounding tie of the split into (t1, t0), the largest t1.
func KeyEvents(k *dilref.Keys) []string {
	seen := map[string]bool{}
	for i := range k.T {
		for j := range k.T[i] {
			t, u, s := k.T[i][j], k.AS1[i][j], dilref.Centre(k.S2[i][j])
			switch t {
			case 0:
				seen["t-zero"] = true
			case dilref.Q - 1:
				seen["t-q-minus-1"] = true
			}
			if u+s < 0 {
				seen["sum-wraps-below-zero"] = true
			}
			if u+s >= dilref.Q {
				seen["sum-wraps-at-q"] = true
			}
			if t%8192 == 4096 {
				seen["t-rounding-tie"] = true
			}
			if k.T1[i][j] == 1023 {
				seen["t1-largest"] = true
			}
		}
	}
	var out []string
	for _, e := range []string{"t-zero", "t-q-minus-1", "sum-wraps-below-zero", "sum-wraps-at-q", "t-rounding-tie", "t1-largest"} {
		if seen[e] {
			out = append(out, e)
		}
	}
	return out
}
