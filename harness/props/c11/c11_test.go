// C11 — Addresses and descriptors are derived and validated as specified.
// Oracle: the reference formulas in codecref (SHAKE-256 tail, SHA-256 checksum, nibble packing).
package c11

import (
	"bytes"
	"crypto/sha256"
	"encoding/json"
	"fmt"
	"testing"

	"github.com/theQRL/go-qrllib/common"
	"github.com/theQRL/go-qrllib/dilithium"
	"github.com/theQRL/go-qrllib/xmss"
	"pgregory.net/rapid"
	"verifharness/ev"
	"verifharness/pu"
	"verifharness/ref/codecref"
)

const prop = "C11"

func TestMain(m *testing.M) {
	ev.Main(m, prop, []ev.Job{
		{Test: "TestAddressFormulas", Quick: 8, Thorough: 16},
		{Test: "TestDescriptorTuples", Quick: 2, Thorough: 2},
		{Test: "TestLegacyValidity", Quick: 6, Thorough: 16},
		{Test: "TestKeyObjects", Quick: 4, Thorough: 8},
	})
}

func TestReplay(t *testing.T)  { ev.StdReplay(t, prop) }
func TestRegress(t *testing.T) { ev.StdRegress(t, prop) }

type addrCase struct {
	Kind string `json:"kind"` // xmss-pk, dilithium-pk, legacy-addr
	PK   pu.HB  `json:"pk,omitempty"`
	Addr pu.HB  `json:"addr,omitempty"`
}

func checkAddr(c *addrCase) (key, msg, class string) {
	switch c.Kind {
	case "xmss-pk":
		var pk [67]byte
		copy(pk[:], c.PK)
		af := pk[1] >> 4
		var a [20]byte
		var l [39]byte
		o1 := ev.Try(func() { a = xmss.GetXMSSAddressFromPK(pk) })
		o2 := ev.Try(func() { l = xmss.GetLegacyXMSSAddressFromPK(pk) })
		if (o1.Panicked && !o1.IsString) || (o2.Panicked && !o2.IsString) {
			return "address/runtime-fault", fmt.Sprintf("derivation failed with %s / %s", o1, o2), ""
		}
		if af != 0 {
			if !o1.Panicked || !o2.Panicked {
				return "address/unsupported-format-accepted", fmt.Sprintf("address format %d is not supported but an address was derived (%s / %s)", af, o1, o2), ""
			}
			return "", "", "unsupported-address-format-refused"
		}
		if o1.Panicked || o2.Panicked {
			return "address/refused", fmt.Sprintf("derivation refused a supported descriptor %x: %s / %s", pk[:3], o1, o2), ""
		}
		if pk[2] != 0 {
			// reserved third descriptor byte set: which descriptor the address should carry is ambiguous, but the
			// digest part is not - it is the tail of SHAKE-256 over the FULL public key as given
			want := codecref.XMSSAddress(pk[:])
			if !bytes.Equal(a[3:], want[3:]) {
				return "address/xmss-digest-not-over-full-pk", fmt.Sprintf("pk with reserved byte %#02x: address tail %x, SHAKE256(full pk)[15:32] = %x", pk[2], a[3:], want[3:]), ""
			}
			lw := codecref.LegacyXMSSAddress(pk[:])
			if !bytes.Equal(l[3:35], lw[3:35]) {
				return "address/legacy-digest-not-over-full-pk", fmt.Sprintf("pk with reserved byte %#02x: legacy address digest differs from SHA256(full pk)", pk[2]), ""
			}
			// ... and whatever descriptor bytes the library chose, what it derived must be valid for its own scheme
			if !xmss.IsValidLegacyXMSSAddress(l) {
				return "address/legacy-own-invalid", fmt.Sprintf("pk with reserved byte %#02x: the derived legacy address %x is not accepted by IsValidLegacyXMSSAddress", pk[2], l), ""
			}
			if pk[0]>>4 == 0 && !xmss.IsValidXMSSAddress(a) {
				return "address/xmss-own-invalid", fmt.Sprintf("pk with reserved byte %#02x: derived XMSS address %x is not valid for its own scheme", pk[2], a), ""
			}
			return "", "", "reserved-byte-set-digest-and-own-validity"
		}
		if want := codecref.XMSSAddress(pk[:]); a != want {
			return "address/xmss-formula", fmt.Sprintf("GetXMSSAddressFromPK = %x, descriptor || SHAKE256(pk)[15:32] = %x", a, want), ""
		}
		if want := codecref.LegacyXMSSAddress(pk[:]); l != want {
			return "address/legacy-formula", fmt.Sprintf("GetLegacyXMSSAddressFromPK = %x, reference %x", l, want), ""
		}
		if !xmss.IsValidLegacyXMSSAddress(l) {
			return "address/legacy-own-invalid", "the derived legacy address is not accepted by IsValidLegacyXMSSAddress", ""
		}
		if pk[0]>>4 == 0 { // XMSS-typed descriptor: validity claims apply
			if !xmss.IsValidXMSSAddress(a) {
				return "address/xmss-own-invalid", fmt.Sprintf("derived XMSS address %x is not valid for its own scheme", a), ""
			}
			if dilithium.IsValidDilithiumAddress(a) {
				return "address/xmss-valid-as-dilithium", fmt.Sprintf("derived XMSS address %x is accepted as a Dilithium address", a), ""
			}
			return "", "", "xmss-typed"
		}
		return "", "", "other-signature-type-formula-only"
	case "dilithium-pk":
		var pk [dilithium.CryptoPublicKeyBytes]byte
		copy(pk[:], c.PK)
		a := dilithium.GetDilithiumAddressFromPK(pk)
		if want := codecref.DilithiumAddress(pk[:]); a != want {
			return "address/dilithium-formula", fmt.Sprintf("GetDilithiumAddressFromPK = %x, 0x10 || SHAKE256(pk)[13:32] = %x", a, want), ""
		}
		if !dilithium.IsValidDilithiumAddress(a) {
			return "address/dilithium-own-invalid", "derived Dilithium address is not valid for its own scheme", ""
		}
		if xmss.IsValidXMSSAddress(a) {
			return "address/dilithium-valid-as-xmss", "derived Dilithium address is accepted as an XMSS address", ""
		}
		return "", "", "dilithium"
	case "legacy-addr":
		var a [39]byte
		copy(a[:], c.Addr)
		var got bool
		if o := ev.Try(func() { got = xmss.IsValidLegacyXMSSAddress(a) }); o.Panicked {
			return "legacy/panic", o.String(), ""
		}
		want := codecref.LegacyValid(a[:])
		if got != want {
			return "legacy/validity", fmt.Sprintf("IsValidLegacyXMSSAddress(%x) = %v, reference predicate (format nibble 0 and checksum = SHA256(first 35)[28:32]) = %v", a, got, want), ""
		}
		if want {
			return "", "", "legacy-valid"
		}
		return "", "", "legacy-invalid"
	}
	return "HARNESS", "unknown kind", ""
}

func TestAddressFormulas(t *testing.T) {
	r := ev.New(t, prop, "TestAddressFormulas")
	r.Rule("rapid: synthetic XMSS public keys (descriptor from the XMSS-valid set: hash 0..2, even height 0..30, format 0, third byte 0; plus other signature types for the byte formula only; plus address format 1..15 which must be refused) with random root/seed, and random 2592-byte Dilithium public keys; oracle: address == descriptor || SHAKE256(pk) tail (3+17 / 1+19 bytes), legacy address formula, valid for the own scheme and invalid for the other; non-trivial = every derived address (20 or 39 bytes compared), distinct by pk")
	checks := r.PerShard(r.Pick(400000, 8000000))
	r.Rapid(t, "addr", checks, func(rt *rapid.T) {
		c := &addrCase{}
		if rapid.IntRange(0, 3).Draw(rt, "scheme") == 0 {
			c.Kind = "dilithium-pk"
			c.PK = pu.DetBytes(rapid.Uint64().Draw(rt, "pk"), dilithium.CryptoPublicKeyBytes)
		} else {
			c.Kind = "xmss-pk"
			pk := pu.DetBytes(rapid.Uint64().Draw(rt, "pk"), 67)
			hash := rapid.IntRange(0, 2).Draw(rt, "hash")
			sigType, af := 0, 0
			switch rapid.IntRange(0, 9).Draw(rt, "descKind") {
			case 0:
				sigType = rapid.IntRange(1, 15).Draw(rt, "sigType")
			case 1:
				af = rapid.IntRange(1, 15).Draw(rt, "addrFormat")
			case 2:
				hash = rapid.IntRange(3, 15).Draw(rt, "hash2")
			}
			pk[0] = byte(sigType<<4 | hash)
			pk[1] = byte(af<<4 | rapid.IntRange(0, 15).Draw(rt, "heightNibble"))
			pk[2] = 0
			if rapid.IntRange(0, 7).Draw(rt, "reserved") == 0 {
				pk[2] = byte(rapid.IntRange(1, 255).Draw(rt, "reservedByte"))
			}
			c.PK = pk
		}
		key, msg, class := checkAddr(c)
		r.Eval(1)
		r.Count("class_"+class, 1)
		r.NonTrivial(c.Kind, []byte(c.PK[:40]))
		r.Sample(map[string]any{"kind": c.Kind, "pk": pu.Short(c.PK), "class": class})
		r.Check(rt, key == "", key, c, "%s", msg)
	})
}

func TestLegacyValidity(t *testing.T) {
	r := ev.New(t, prop, "TestLegacyValidity")
	r.Rule("legacy 39-byte addresses: derived from public keys and then EVERY single-bit flip of the 39 bytes; random 35-byte prefixes completed with the correct checksum (format nibble 0 and 1..15); random 39-byte strings; checksum with 1..3 correct bytes; four bytes taken from another window of the right digest or from a related digest; a constant checksum field (zero, 0xFF) under supported and unsupported formats; oracle IsValidLegacyXMSSAddress(a) <=> (format nibble 0 and a[35:39] == SHA256(a[0:35])[28:32]); non-trivial = an address that is invalid for a single reason (one flipped bit, wrong format with right checksum, checksum partially right), distinct by content")
	checks := r.PerShard(r.Pick(3000, 120000))
	r.Rapid(t, "legacy", checks, func(rt *rapid.T) {
		kind := rapid.SampledFrom([]string{"derived-all-flips", "prefix-right-checksum", "prefix-wrong-format", "random", "partial-checksum", "checksum-from-another-window", "checksum-from-another-window", "constant-checksum"}).Draw(rt, "kind")
		mk := func(prefix []byte) []byte {
			s := sha256.Sum256(prefix[:35])
			return append(append([]byte{}, prefix[:35]...), s[28:]...)
		}
		switch kind {
		case "derived-all-flips":
			pk := pu.DetBytes(rapid.Uint64().Draw(rt, "pk"), 67)
			pk[0], pk[1], pk[2] = byte(rapid.IntRange(0, 2).Draw(rt, "hash")), byte(rapid.IntRange(0, 15).Draw(rt, "hn")), 0
			var epk [67]byte
			copy(epk[:], pk)
			a := xmss.GetLegacyXMSSAddressFromPK(epk)
			for bit := -1; bit < 39*8; bit++ {
				b := append([]byte{}, a[:]...)
				if bit >= 0 {
					b[bit/8] ^= 1 << uint(bit%8)
				}
				c := &addrCase{Kind: "legacy-addr", Addr: b}
				key, msg, class := checkAddr(c)
				r.Eval(1)
				r.Count("class_"+class, 1)
				if bit >= 0 {
					r.NonTrivial("flip", b)
				}
				r.Check(rt, key == "", key, c, "bit %d: %s", bit, msg)
			}
		default:
			b := pu.DetBytes(rapid.Uint64().Draw(rt, "bytes"), 39)
			switch kind {
			case "prefix-right-checksum":
				b[1] &= 0x0f
				b = mk(b)
			case "prefix-wrong-format":
				b[1] = b[1]&0x0f | byte(rapid.IntRange(1, 15).Draw(rt, "af"))<<4
				b = mk(b)
			case "checksum-from-another-window":
				// four bytes of the RIGHT digest, taken from the wrong place (the first four as in Base58Check, any other
				// window, byte-reversed tail) or the tail of a related digest (of the first 34 / all 39 bytes, double SHA-256)
				b[1] &= 0x0f
				d := sha256.Sum256(b[:35])
				var cs []byte
				switch rapid.IntRange(0, 5).Draw(rt, "how") {
				case 0:
					cs = d[0:4]
				case 1:
					k := rapid.IntRange(1, 27).Draw(rt, "window")
					cs = d[k : k+4]
				case 2:
					cs = []byte{d[31], d[30], d[29], d[28]}
				case 3:
					e := sha256.Sum256(b[:34])
					cs = e[28:]
				case 4:
					e := sha256.Sum256(d[:])
					cs = e[28:]
				default:
					e := sha256.Sum256(b[3:35])
					cs = e[28:]
				}
				copy(b[35:], cs)
				if bytes.Equal(b[35:39], d[28:]) {
					b[38] ^= 1 // (2^-32) the wrong window happens to hold the right bytes
				}
			case "constant-checksum":
				// the checksum field holds a constant (all zero, all 0xFF, the first body bytes): what a validator compares
				// against when its expected value was never filled in; with the supported and with an unsupported format
				if rapid.Bool().Draw(rt, "fmt0") {
					b[1] &= 0x0f
				} else {
					b[1] = b[1]&0x0f | byte(rapid.IntRange(1, 15).Draw(rt, "af"))<<4
				}
				switch rapid.IntRange(0, 2).Draw(rt, "const") {
				case 0:
					copy(b[35:], []byte{0, 0, 0, 0})
				case 1:
					copy(b[35:], []byte{0xff, 0xff, 0xff, 0xff})
				default:
					copy(b[35:], b[0:4])
				}
				if d := sha256.Sum256(b[:35]); bytes.Equal(b[35:39], d[28:]) {
					b[38] ^= 1
				}
			case "partial-checksum":
				b[1] &= 0x0f
				good := mk(b)
				keep := rapid.IntRange(1, 3).Draw(rt, "keep")
				drop := rapid.IntRange(0, 3).Draw(rt, "which")
				for i := 0; i < 4; i++ {
					if (i+drop)%4 < keep {
						b[35+i] = good[35+i]
					} else if b[35+i] == good[35+i] {
						b[35+i] ^= 0x40
					}
				}
			}
			c := &addrCase{Kind: "legacy-addr", Addr: b}
			key, msg, class := checkAddr(c)
			r.Eval(1)
			r.Count("class_"+class, 1)
			r.Count("gen_"+kind, 1)
			if kind != "random" {
				r.NonTrivial(kind, b)
			}
			r.Sample(map[string]any{"kind": kind, "addr": pu.Short(b), "class": class})
			r.Check(rt, key == "", key, c, "%s", msg)
		}
	})
}

// ---- descriptors ----

type descCase struct {
	Hash, SigType, Height, AddrFormat uint
}

func checkDesc(c *descCase) (string, string) {
	var bytes3 [3]uint8
	var got [4]uint
	variants := []string{"FromBytes", "FromExtendedPK", "FromExtendedSeed", "LegacyFromBytes", "LegacyFromExtendedPK"}
	o := ev.Try(func() {
		d := xmss.NewQRLDescriptor(uint8(c.Height), xmss.HashFunction(c.Hash), common.SignatureType(c.SigType), common.AddrFormatType(c.AddrFormat))
		bytes3 = d.GetBytes()
	})
	if o.Panicked {
		return "descriptor/encode-panic", o.String()
	}
	if want := codecref.Desc(c.Hash, c.SigType, c.Height, c.AddrFormat); bytes3 != want {
		return "descriptor/encoding", fmt.Sprintf("GetBytes = %x, reference nibble packing = %x", bytes3, want)
	}
	for _, v := range variants {
		var d *xmss.QRLDescriptor
		o := ev.Try(func() {
			switch v {
			case "FromBytes":
				d = xmss.NewQRLDescriptorFromBytes(bytes3[:])
			case "FromExtendedPK":
				var pk [67]byte
				copy(pk[:], bytes3[:])
				d = xmss.NewQRLDescriptorFromExtendedPK(&pk)
			case "FromExtendedSeed":
				var es [51]byte
				copy(es[:], bytes3[:])
				d = xmss.NewQRLDescriptorFromExtendedSeed(es)
			case "LegacyFromBytes":
				d = xmss.LegacyQRLDescriptorFromBytes(bytes3[:])
			case "LegacyFromExtendedPK":
				var pk [67]byte
				copy(pk[:], bytes3[:])
				d = xmss.LegacyQRLDescriptorFromExtendedPK(&pk)
			}
			got = [4]uint{uint(d.GetHashFunction()), uint(d.GetSignatureType()), uint(d.GetHeight()), uint(d.GetAddrFormatType())}
		})
		if o.Panicked {
			return "descriptor/decode-panic", fmt.Sprintf("%s: %s", v, o)
		}
		if got != [4]uint{c.Hash, c.SigType, c.Height, c.AddrFormat} {
			return "descriptor/roundtrip", fmt.Sprintf("%s(encode(hash=%d,sig=%d,height=%d,format=%d)) decodes to hash=%d sig=%d height=%d format=%d", v, c.Hash, c.SigType, c.Height, c.AddrFormat, got[0], got[1], got[2], got[3])
		}
		if back := d.GetBytes(); back != bytes3 {
			return "descriptor/re-encode", fmt.Sprintf("%s: re-encoding gives %x, not %x", v, back, bytes3)
		}
	}
	return "", ""
}

func TestDescriptorTuples(t *testing.T) {
	r := ev.New(t, prop, "TestDescriptorTuples")
	r.Rule("exhaustive: all 16 x 16 x 16 x 16 descriptor field tuples (hash 0..15, signature type 0..15, even height 0..30, address format 0..15) through NewQRLDescriptor().GetBytes() (== reference nibble packing) and back through the five decoders; asserted for the supported combinations (hash 0..2, signature type XMSS/Dilithium, even height 4..30, format 0) and, beyond the property's wording, for the remaining tuples only crash-freedom is required and agreement is counted; non-trivial = every supported tuple, distinct by enumeration")
	n, sup, agree := 0, 0, 0
	for hash := uint(0); hash < 16; hash++ {
		for st := uint(0); st < 16; st++ {
			for hn := uint(0); hn < 16; hn++ {
				for af := uint(0); af < 16; af++ {
					n++
					if !r.Mine(n) {
						continue
					}
					c := &descCase{hash, st, hn * 2, af}
					key, msg := checkDesc(c)
					r.Eval(1)
					supported := hash <= 2 && st <= 1 && hn >= 2 && af == 0
					if supported {
						sup++
						r.Check(t, key == "", key, c, "%s", msg)
					} else if key == "descriptor/encode-panic" || key == "descriptor/decode-panic" {
						// refusing unsupported values explicitly is allowed; a runtime fault is not
						r.Count("unsupported_tuple_refused", 1)
					} else if key == "" {
						agree++
					} else {
						r.Count("unsupported_tuple_roundtrip_differs", 1)
					}
				}
			}
		}
	}
	r.NonTrivialEnum(sup)
	r.Count("supported_tuples", sup)
	r.Count("unsupported_tuples_that_also_round_trip", agree)
	r.Sample(map[string]any{"tuple": "hash=2 sig=0 height=30 format=0", "bytes": fmt.Sprintf("%x", codecref.Desc(2, 0, 30, 0))})
	r.Exhaustive("all 65536 descriptor field tuples")
}

// ---- real key objects ----

type keyCase struct {
	Scheme     string `json:"scheme"`
	Hash       uint   `json:"hash"`
	H          int    `json:"h"`
	Seed       pu.HB  `json:"seed"`
	AddrFormat uint   `json:"addr_format,omitempty"`
	SigType    uint   `json:"sig_type,omitempty"`
	Third      uint8  `json:"third_descriptor_byte,omitempty"`
}

func checkKey(c *keyCase) (string, string) {
	if c.Scheme == "dilithium" {
		d, err := pu.DilKey(c.Seed)
		if err != nil {
			return "key/error", err.Error()
		}
		pk := d.GetPK()
		if a, w := d.GetAddress(), codecref.DilithiumAddress(pk[:]); a != w {
			return "key/dilithium-address", fmt.Sprintf("Dilithium.GetAddress = %x, reference %x", a, w)
		}
		k, m, _ := checkAddr(&addrCase{Kind: "dilithium-pk", PK: pk[:]})
		return k, m
	}
	if c.Scheme == "xmss" && c.AddrFormat != 0 {
		// a key object whose descriptor names an unsupported address format can be constructed; deriving its address
		// must be refused on EVERY call (first, second, after other getters), never answered with some other value
		var x *xmss.XMSS
		if o := ev.Try(func() {
			x = xmss.NewXMSSFromSeed(pu.Arr48(c.Seed), uint8(c.H), xmss.HashFunction(c.Hash), common.AddrFormatType(c.AddrFormat))
		}); o.Panicked {
			if !o.IsString {
				return "key/unsupported-format-constructor-fault", o.String()
			}
			return "", "" // refusing to build such a key is fine too
		}
		for call := 1; call <= 3; call++ {
			var a [20]byte
			o := ev.Try(func() { a = x.GetAddress() })
			if !o.Panicked {
				return "key/unsupported-format-address-derived", fmt.Sprintf("GetAddress call #%d on a key with address format %d returned %x instead of refusing", call, c.AddrFormat, a)
			}
			if !o.IsString {
				return "key/unsupported-format-fault", o.String()
			}
			ev.Try(func() { _ = x.GetLegacyAddress() })
			_ = x.GetPK()
		}
		return "", ""
	}
	if c.Scheme == "xmss-from-extended-seed" {
		// a key object built from an extended seed DECODES the descriptor it is given and ENCODES it again in its public
		// key, its extended seed and its address: every field value must survive (signature-type nibble 0..15 included;
		// the third byte is not part of any field and comes back as 0)
		var es [common.ExtendedSeedSize]uint8
		d := codecref.Desc(c.Hash, c.SigType, uint(c.H), c.AddrFormat)
		copy(es[:], d[:])
		es[2] = c.Third
		copy(es[3:], c.Seed)
		var x *xmss.XMSS
		if o := ev.Try(func() { x = xmss.NewXMSSFromExtendedSeed(es) }); o.Panicked {
			return "key/extended-seed-constructor", fmt.Sprintf("NewXMSSFromExtendedSeed(%x...) refused: %s", es[:3], o)
		}
		pk, back := x.GetPK(), x.GetExtendedSeed()
		if pk[0] != d[0] || pk[1] != d[1] || pk[2] != 0 {
			return "key/extended-seed-descriptor-in-pk", fmt.Sprintf("key built from an extended seed with descriptor %x carries %x in its public key", d[:2], pk[:3])
		}
		es[2] = 0
		if back != es {
			return "key/extended-seed-roundtrip", fmt.Sprintf("GetExtendedSeed() starts with %x, the key was built from %x", back[:3], es[:3])
		}
		if c.AddrFormat != 0 {
			// an undefined address format: the key exists, its address does not
			var a [20]byte
			if o := ev.Try(func() { a = x.GetAddress() }); !o.Panicked {
				return "key/unsupported-format-address-derived", fmt.Sprintf("GetAddress on a key built from an extended seed with address format %d returned %x instead of refusing", c.AddrFormat, a)
			} else if !o.IsString {
				return "key/unsupported-format-fault", o.String()
			}
			return "", ""
		}
		if a, w := x.GetAddress(), codecref.XMSSAddress(pk[:]); a != w || a[0] != d[0] || a[1] != d[1] {
			return "key/extended-seed-address", fmt.Sprintf("GetAddress = %x, reference %x (descriptor given: %x)", a, w, d[:2])
		}
		if c.SigType == 0 {
			// and it is the same key as the one built from the bare seed
			if y := pu.NewXMSS(c.Seed, c.H, xmss.HashFunction(c.Hash)); y.GetPK() != pk {
				return "key/extended-seed-vs-seed", "keys built from the seed and from its extended seed differ"
			}
		}
		return "", ""
	}
	x := pu.NewXMSS(c.Seed, c.H, xmss.HashFunction(c.Hash))
	pk := x.GetPK()
	if a, w := x.GetAddress(), codecref.XMSSAddress(pk[:]); a != w || a != xmss.GetXMSSAddressFromPK(pk) {
		return "key/xmss-address", fmt.Sprintf("XMSS.GetAddress = %x, reference %x", a, w)
	}
	if l, w := x.GetLegacyAddress(), codecref.LegacyXMSSAddress(pk[:]); l != w {
		return "key/legacy-address", fmt.Sprintf("XMSS.GetLegacyAddress = %x, reference %x", l, w)
	}
	if want := codecref.Desc(c.Hash, 0, uint(c.H), 0); pk[0] != want[0] || pk[1] != want[1] || pk[2] != want[2] {
		return "key/descriptor", fmt.Sprintf("public key descriptor %x, reference %x", pk[:3], want)
	}
	es := x.GetExtendedSeed()
	if d := xmss.NewQRLDescriptorFromExtendedSeed(es); uint(d.GetHeight()) != uint(c.H) || uint(d.GetHashFunction()) != c.Hash || d.GetSignatureType() != common.XMSSSig {
		return "key/extended-seed-descriptor", "descriptor in the extended seed does not decode to the key's parameters"
	}
	k, m, _ := checkAddr(&addrCase{Kind: "xmss-pk", PK: pk[:]})
	return k, m
}

func TestKeyObjects(t *testing.T) {
	r := ev.New(t, prop, "TestKeyObjects")
	r.Rule("real key objects (XMSS: 3 hashes x h in {4,6}; Dilithium) from rapid seeds: GetAddress / GetLegacyAddress equal the reference formulas of GetPK, the descriptor bytes equal the reference packing, the extended seed's descriptor decodes to the key's parameters, keys built FROM an extended seed (every signature-type nibble, any third byte) carry the given descriptor fields in GetPK / GetExtendedSeed / GetAddress, and the derived addresses are valid for the own scheme only; non-trivial = every key, distinct by (scheme,hash,h,seed)")
	checks := r.PerShard(r.Pick(400, 12000))
	r.Rapid(t, "keys", checks, func(rt *rapid.T) {
		c := &keyCase{Scheme: rapid.SampledFrom([]string{"xmss", "dilithium", "xmss-from-extended-seed"}).Draw(rt, "scheme"), Seed: pu.Seed48().Draw(rt, "seed")}
		if c.Scheme == "xmss-from-extended-seed" {
			c.Hash = uint(rapid.SampledFrom(pu.Hashes).Draw(rt, "hash"))
			c.H = rapid.SampledFrom([]int{4, 4, 4, 6}).Draw(rt, "h")
			c.SigType = uint(rapid.SampledFrom([]int{0, 0, 1, 2, 7, 8, 15, -1}).Draw(rt, "sigType") & 15)
			c.Third = rapid.SampledFrom([]uint8{0, 0, 1, 0x80, 0xff}).Draw(rt, "third")
			if rapid.IntRange(0, 3).Draw(rt, "oddFormat") == 0 {
				c.AddrFormat = uint(rapid.IntRange(1, 15).Draw(rt, "af"))
			}
			r.Count(fmt.Sprintf("extended_seed_keys_sigtype_%d", c.SigType), 1)
		}
		if c.Scheme == "xmss" {
			c.Hash = uint(rapid.SampledFrom(pu.Hashes).Draw(rt, "hash"))
			c.H = rapid.SampledFrom([]int{4, 4, 4, 6}).Draw(rt, "h")
			if rapid.IntRange(0, 5).Draw(rt, "oddFormat") == 0 {
				c.AddrFormat, c.H = uint(rapid.IntRange(1, 15).Draw(rt, "af")), 4
				r.Count("keys_with_unsupported_address_format", 1)
			}
		}
		key, msg := checkKey(c)
		r.Eval(1)
		r.Count("scheme_"+c.Scheme, 1)
		r.NonTrivial(c.Scheme, c.Hash, c.H, []byte(c.Seed))
		r.Sample(map[string]any{"scheme": c.Scheme, "hash": c.Hash, "h": c.H, "seed": pu.Short(c.Seed)})
		r.Check(rt, key == "", key, c, "%s", msg)
	})
}

func init() {
	af := func(t *testing.T, r *ev.Recorder, raw json.RawMessage) {
		var c addrCase
		if err := json.Unmarshal(raw, &c); err != nil {
			t.Fatalf("HARNESS-HEALTH: %v", err)
		}
		key, msg, _ := checkAddr(&c)
		r.Check(t, key == "", key, &c, "%s", msg)
	}
	ev.Register("TestAddressFormulas", af)
	ev.Register("TestLegacyValidity", af)
	ev.Register("TestDescriptorTuples", func(t *testing.T, r *ev.Recorder, raw json.RawMessage) {
		var c descCase
		if err := json.Unmarshal(raw, &c); err != nil {
			t.Fatalf("HARNESS-HEALTH: %v", err)
		}
		key, msg := checkDesc(&c)
		r.Check(t, key == "", key, &c, "%s", msg)
	})
	ev.Register("TestKeyObjects", func(t *testing.T, r *ev.Recorder, raw json.RawMessage) {
		var c keyCase
		if err := json.Unmarshal(raw, &c); err != nil {
			t.Fatalf("HARNESS-HEALTH: %v", err)
		}
		key, msg := checkKey(&c)
		r.Check(t, key == "", key, &c, "%s", msg)
	})
}
