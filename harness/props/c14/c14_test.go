// C14 — Verification and decoding of untrusted bytes never crashes.
// Oracle: every call ends with a value or one of the library's explicit string panics; never a
// runtime.Error; Dilithium Verify/Open never panic at all; input buffers are bit-identical afterwards;
// a call that does not return is reported by the driver (pending-case protocol).
package c14

import (
	"bytes"
	"encoding/json"
	"fmt"
	"strings"
	"testing"
	"unicode/utf8"

	"github.com/theQRL/go-qrllib/dilithium"
	"github.com/theQRL/go-qrllib/misc"
	"github.com/theQRL/go-qrllib/qrl"
	"github.com/theQRL/go-qrllib/xmss"
	"pgregory.net/rapid"
	"verifharness/ev"
	"verifharness/pu"
	"verifharness/ref/xmssref"
)

const prop = "C14"

func TestMain(m *testing.M) {
	ev.Main(m, prop, []ev.Job{
		{Test: "TestXMSSVerifyHostile", Quick: 8, Thorough: 16},
		{Test: "TestDilithiumHostile", Quick: 4, Thorough: 8},
		{Test: "TestAddressesHostile", Quick: 2, Thorough: 4},
		{Test: "TestMnemonicHostile", Quick: 2, Thorough: 8},
		{Test: "FuzzXMSSVerify", Quick: 0, Thorough: 1},
		{Test: "FuzzDilithiumOpen", Quick: 0, Thorough: 1},
		{Test: "FuzzMnemonic", Quick: 0, Thorough: 1},
	})
}

func TestReplay(t *testing.T)  { ev.StdReplay(t, prop) }
func TestRegress(t *testing.T) { ev.StdRegress(t, prop) }

// call is the replayable case: one entry point and its raw arguments.
type call struct {
	Entry  string `json:"entry"` // xmss.Verify, xmss.VerifyW, xmss.IsValidXMSSAddress, xmss.IsValidLegacyXMSSAddress, xmss.GetXMSSAddressFromPK, xmss.GetLegacyXMSSAddressFromPK, dilithium.Verify, dilithium.Open, dilithium.IsValidDilithiumAddress, dilithium.GetDilithiumAddressFromPK, misc.MnemonicToSeedBin, misc.MnemonicToExtendedSeedBin
	W      uint32 `json:"w,omitempty"`
	Msg    pu.HB  `json:"msg,omitempty"`
	Sig    pu.HB  `json:"sig,omitempty"`
	PK     pu.HB  `json:"pk,omitempty"`
	Addr   pu.HB  `json:"addr,omitempty"`
	Phrase string `json:"phrase,omitempty"`
	Class  string `json:"class,omitempty"`
}

// phrases that are not valid UTF-8 travel as hex in replay files
func (c call) MarshalJSON() ([]byte, error) {
	type plain call
	if utf8.ValidString(c.Phrase) {
		return json.Marshal(plain(c))
	}
	raw := pu.HB(c.Phrase)
	c.Phrase = ""
	return json.Marshal(struct {
		plain
		PhraseHex pu.HB `json:"phrase_hex"`
	}{plain(c), raw})
}

func (c *call) UnmarshalJSON(d []byte) error {
	type plain call
	var v struct {
		plain
		PhraseHex pu.HB `json:"phrase_hex"`
	}
	if err := json.Unmarshal(d, &v); err != nil {
		return err
	}
	*c = call(v.plain)
	if v.PhraseHex != nil {
		c.Phrase = string(v.PhraseHex)
	}
	return nil
}

var mayRefuse = map[string]bool{"xmss.Verify": true, "xmss.VerifyW": true, "xmss.GetXMSSAddressFromPK": true, "xmss.GetLegacyXMSSAddressFromPK": true,
	"misc.MnemonicToSeedBin": true, "misc.MnemonicToExtendedSeedBin": true, "dilithium.NewDilithiumFromMnemonic": true, "xmss.IsValidXMSSAddress": true, "xmss.IsValidLegacyXMSSAddress": true,
	"xmss.NewQRLDescriptorFromBytes": true, "xmss.LegacyQRLDescriptorFromBytes": true}

// run executes the call and judges the outcome. guard = which answer was given (for the evidence).
func run(r *ev.Recorder, c *call) (key, msg, guard string) {
	msg0, sig0, pk0, addr0, phrase0 := append([]byte{}, c.Msg...), append([]byte{}, c.Sig...), append([]byte{}, c.PK...), append([]byte{}, c.Addr...), strings.Clone(c.Phrase)
	if len(c.Msg)+len(c.Sig)+len(c.Phrase) < 1<<16 && (strings.Contains(c.Entry, "Verify") || strings.HasPrefix(c.Entry, "misc.") || c.Entry == "dilithium.Open" || c.Entry == "dilithium.NewDilithiumFromMnemonic") {
		r.Pending(c)
		defer r.Done()
	}
	// slices are handed over with spare capacity behind them (sentinel-filled): a callee that appends to or
	// re-slices its arguments would write there
	gMsg, okMsg := pu.Guard(c.Msg)
	gSig, okSig := pu.Guard(c.Sig)
	if (len(c.Sig)+len(c.Msg))%2 == 1 {
		// every other case: slices whose capacity ends with their length (an out-of-range read cannot hide in spare capacity)
		gMsg, gSig = gMsg[:len(gMsg):len(gMsg)], gSig[:len(gSig):len(gSig)]
	}
	var resB bool
	var resLen int
	var pkX [67]byte
	var pkD [dilithium.CryptoPublicKeyBytes]byte
	var sigD [dilithium.CryptoBytes]byte
	var a20 [20]byte
	var a39 [39]byte
	copy(pkX[:], c.PK)
	copy(pkD[:], c.PK)
	copy(sigD[:], c.Sig)
	copy(a20[:], c.Addr)
	copy(a39[:], c.Addr)
	pkD0 := pkD
	o := ev.Try(func() {
		switch c.Entry {
		case "xmss.Verify":
			resB = xmss.Verify(gMsg, gSig, pkX)
		case "xmss.VerifyW":
			resB = xmss.VerifyWithCustomWOTSParamW(gMsg, gSig, pkX, c.W)
		case "xmss.IsValidXMSSAddress":
			resB = xmss.IsValidXMSSAddress(a20)
		case "xmss.IsValidLegacyXMSSAddress":
			resB = xmss.IsValidLegacyXMSSAddress(a39)
		case "xmss.GetXMSSAddressFromPK":
			x := xmss.GetXMSSAddressFromPK(pkX)
			resLen = len(x)
		case "xmss.GetLegacyXMSSAddressFromPK":
			x := xmss.GetLegacyXMSSAddressFromPK(pkX)
			resLen = len(x)
		case "xmss.NewQRLDescriptorFromBytes":
			resB = xmss.NewQRLDescriptorFromBytes(gSig) != nil // Sig holds the descriptor bytes (any length) here
		case "xmss.LegacyQRLDescriptorFromBytes":
			resB = xmss.LegacyQRLDescriptorFromBytes(gSig) != nil
		case "dilithium.Verify":
			resB = dilithium.Verify(gMsg, sigD, &pkD)
		case "dilithium.Open":
			out := dilithium.Open(gSig, &pkD) // Sig holds the whole sealed message here
			resLen = len(out)
			if out != nil && len(c.Sig) >= dilithium.CryptoBytes && !bytes.Equal(out, c.Sig[dilithium.CryptoBytes:]) {
				panic(fmt.Errorf("harness: Open returned bytes that are not the attached message"))
			}
		case "dilithium.IsValidDilithiumAddress":
			resB = dilithium.IsValidDilithiumAddress(a20)
		case "dilithium.GetDilithiumAddressFromPK":
			x := dilithium.GetDilithiumAddressFromPK(pkD)
			resLen = len(x)
		case "misc.MnemonicToSeedBin":
			x := misc.MnemonicToSeedBin(c.Phrase)
			resLen = len(x)
		case "misc.MnemonicToExtendedSeedBin":
			x := misc.MnemonicToExtendedSeedBin(c.Phrase)
			resLen = len(x)
		case "dilithium.NewDilithiumFromMnemonic":
			// the wallet constructor that decodes a phrase: a key, an error or an explicit refusal
			d, err := dilithium.NewDilithiumFromMnemonic(c.Phrase)
			if err == nil && d != nil {
				resLen = 48
			}
		default:
			panic(fmt.Errorf("harness: unknown entry %q", c.Entry))
		}
	})
	r.Eval(1)
	tag := fmt.Sprintf("%s [%s] (msg %d bytes, sig %d bytes, pk descriptor %x)", c.Entry, c.Class, len(c.Msg), len(c.Sig), c.PK[:min(3, len(c.PK))])
	if o.Panicked {
		if o.Runtime {
			return c.Entry + "/runtime-fault", fmt.Sprintf("%s: runtime fault: %s", tag, o.Text), ""
		}
		if !o.IsString {
			return c.Entry + "/foreign-panic", fmt.Sprintf("%s: panic with a non-string value: %s", tag, o), ""
		}
		if !mayRefuse[c.Entry] {
			return c.Entry + "/refuses", fmt.Sprintf("%s: must never refuse, but raised %q", tag, o.Text), ""
		}
		guard = "refused: " + o.Text
		if i := strings.Index(guard, " = "); i > 0 && strings.HasPrefix(o.Text, "word count") { // "word count = 33 must be even"
			guard = "refused: word count = N must be even"
		}
	} else if c.Entry == "dilithium.Open" || strings.HasPrefix(c.Entry, "misc.") || strings.Contains(c.Entry, "AddressFromPK") || c.Entry == "dilithium.NewDilithiumFromMnemonic" {
		guard = fmt.Sprintf("returned %d bytes", resLen)
		if resLen > 0 && c.Entry == "dilithium.Open" {
			guard = "returned the message"
		}
	} else {
		guard = fmt.Sprintf("returned %v", resB)
	}
	if !okMsg() || !okSig() {
		return c.Entry + "/input-modified", tag + ": the caller's slice (or the spare capacity behind it) was written to", guard
	}
	if !bytes.Equal(msg0, c.Msg) || !bytes.Equal(sig0, c.Sig) || !bytes.Equal(pk0, c.PK) || !bytes.Equal(addr0, c.Addr) || phrase0 != c.Phrase || pkD0 != pkD {
		return c.Entry + "/input-modified", tag + ": an input buffer was modified by the call", guard
	}
	return "", "", guard
}

func min(a, b int) int {
	if a < b {
		return a
	}
	return b
}

func judge(tb ev.TB, r *ev.Recorder, c *call) string {
	key, msg, guard := run(r, c)
	r.Check(tb, key == "", key, c, "%s", msg)
	r.Count(c.Entry+" -> "+guard, 1)
	return guard
}

func init() {
	f := func(t *testing.T, r *ev.Recorder, raw json.RawMessage) {
		var c call
		if err := json.Unmarshal(raw, &c); err != nil {
			t.Fatalf("HARNESS-HEALTH: %v", err)
		}
		judge(t, r, &c)
	}
	for _, n := range []string{"TestXMSSVerifyHostile", "TestDilithiumHostile", "TestAddressesHostile", "TestMnemonicHostile", "FuzzXMSSVerify", "FuzzDilithiumOpen", "FuzzMnemonic"} {
		ev.Register(n, f)
	}
}

// ---- XMSS verification ----

func wotsBase(w uint32) int {
	switch w {
	case 4:
		return 4 + 32 + 133*32
	case 256:
		return 4 + 32 + 34*32
	}
	return 2180
}

var validTriple struct {
	msg, sig, pk []byte
}

func valid() ([]byte, []byte, []byte) {
	if validTriple.sig == nil {
		k := xmssref.NewKey(make([]byte, 48), 4, xmssref.SHAKE128)
		validTriple.msg = []byte("valid message")
		validTriple.sig = k.Sign(5, validTriple.msg)
		validTriple.pk = pu.RefPK(k, xmss.SHAKE_128)
	}
	return validTriple.msg, validTriple.sig, validTriple.pk
}

// buildXMSS decodes generator choices into a hostile Verify call; shared by the rapid test and the fuzz target.
func buildXMSS(wSel, lenKind, k, delta, descKind, d0, d1, d2, contentKind int, contentSeed uint64, msgLen int) *call {
	w := []uint32{16, 16, 4, 256}[wSel%4]
	base := wotsBase(w)
	var n int
	cls := ""
	effBase := base // the base size the length was derived from (another w's in the cross-parameter class)
	switch lenKind % 9 {
	case 8:
		// a length that is well-formed for ANOTHER Winternitz parameter, with a descriptor whose height matches it
		ow := []uint32{16, 4, 256}[(k/16)%3]
		if ow == w {
			ow = []uint32{4, 256, 16}[(k/16)%3]
		}
		effBase = wotsBase(ow)
		n, cls = effBase+32*(4+2*(k%14)), fmt.Sprintf("length-of-w=%d-signature", ow)
	case 0:
		n, cls = k%41, "tiny"
	case 1:
		n, cls = base-1+delta%3, "around-base" // base-1, base, base+1
	case 2, 3:
		n, cls = base+32*(k%32)+(delta%3-1), "base+32k+-1"
	case 4:
		n, cls = base+960+delta%3-1, "around-maximum"
	case 5:
		n, cls = base+960+1+k*37, "beyond-maximum"
	case 6:
		n, cls = base+32*(k%32), "well-formed-length"
	default:
		n, cls = base+32*(2+2*(k%14)), "supported-height-length"
	}
	if n < 0 {
		n = 0
	}
	c := &call{Entry: "xmss.VerifyW", W: w}
	if w == 16 && wSel%2 == 0 {
		c.Entry, c.W = "xmss.Verify", 0
	}
	msg, sig, pk := valid()
	c.PK = append([]byte{}, pk...)
	switch descKind % 4 {
	case 0: // consistent with the length
		h := (n - effBase) / 32
		c.PK[0], c.PK[1], c.PK[2] = byte(d0%3), byte(h/2)&0x0f, 0
		cls += "/descriptor-consistent"
		if d1%4 == 0 {
			// height and signature type consistent, hash id ANY of the 16 nibble values (3..15 are unsupported)
			c.PK[0] = byte(d0 % 16)
			cls += "-any-hash-id"
		}
	case 1:
		c.PK[0], c.PK[1], c.PK[2] = byte(d0), byte(d1), byte(d2)
		cls += "/descriptor-random"
	case 2:
		c.PK[0], c.PK[1], c.PK[2] = byte(d0%16), byte(d1%16), 0 // XMSS type, any hash id, any height
		cls += "/descriptor-xmss-any-hash"
	default:
		cls += "/descriptor-valid-key"
	}
	c.Sig = make([]byte, n)
	switch contentKind % 5 {
	case 0:
	case 1:
		for i := range c.Sig {
			c.Sig[i] = 0xff
		}
	case 2:
		copy(c.Sig, pu.DetBytes(contentSeed, n))
	default:
		copy(c.Sig, sig)
		if n > 0 && contentKind%5 == 4 {
			c.Sig[int(contentSeed%uint64(n))] ^= byte(1 + contentSeed%255)
		}
	}
	if contentKind%7 == 0 {
		copy(c.PK[3:], pu.DetBytes(contentSeed+1, 64))
	}
	c.Msg = msg
	if msgLen >= 0 {
		c.Msg = pu.DetBytes(contentSeed+2, msgLen)
	}
	c.Class = cls
	return c
}

func TestXMSSVerifyHostile(t *testing.T) {
	r := ev.New(t, prop, "TestXMSSVerifyHostile")
	r.Rule("rapid: xmss.Verify and VerifyWithCustomWOTSParamW (w in {4,16,256}) with signature lengths from {0..40, base-1, base, base+1, base+32k-1/+0/+1 for k=0..31, around and beyond the maximum, and lengths that are well-formed for ANOTHER Winternitz parameter with a matching descriptor}, descriptor nibbles over all 16^4 combinations (the combination consistent with the length over-represented), content zeros / 0xFF / random / a valid signature / a valid signature with one byte changed, messages of 0..10^4 bytes; oracle: value or explicit string panic, never a runtime.Error, buffers unchanged; non-trivial = a call that got past the size and descriptor guards (reached hashing: answered true/false by the verifier proper), distinct by (entry, w, length, descriptor, content)")
	checks := r.PerShard(r.Pick(24000, 400000))
	r.Rapid(t, "xv", checks, func(rt *rapid.T) {
		msgLen := -1
		if rapid.IntRange(0, 3).Draw(rt, "customMsg") == 0 {
			msgLen = rapid.SampledFrom([]int{0, 1, 31, 32, 33, 135, 136, 137, 1000, 10000}).Draw(rt, "msgLen")
		}
		c := buildXMSS(rapid.IntRange(0, 3).Draw(rt, "w"), rapid.SampledFrom([]int{0, 1, 2, 3, 4, 5, 6, 6, 7, 7, 7, 7, 8, 8}).Draw(rt, "lenKind"), rapid.IntRange(0, 63).Draw(rt, "k"), rapid.IntRange(0, 2).Draw(rt, "delta"),
			rapid.SampledFrom([]int{0, 0, 0, 1, 2, 3}).Draw(rt, "descKind"), rapid.IntRange(0, 255).Draw(rt, "d0"), rapid.IntRange(0, 255).Draw(rt, "d1"), rapid.IntRange(0, 255).Draw(rt, "d2"),
			rapid.IntRange(0, 34).Draw(rt, "content"), rapid.Uint64().Draw(rt, "seed"), msgLen)
		guard := judge(rt, r, c)
		if guard == "returned true" || guard == "returned false" {
			h := (len(c.Sig) - wotsBase(map[uint32]uint32{0: 16, 4: 4, 16: 16, 256: 256}[c.W])) / 32
			if h >= 4 && int(c.PK[1]&0xf)*2 == h && c.PK[0] <= 2 {
				r.NonTrivial(c.Entry, c.W, len(c.Sig), []byte(c.PK[:3]), []byte(c.Sig[:min(8, len(c.Sig))]), len(c.Msg))
				r.Count("reached_hashing_w"+fmt.Sprint(c.W), 1)
			}
		}
		r.Sample(map[string]any{"entry": c.Entry, "w": c.W, "class": c.Class, "sig_len": len(c.Sig), "descriptor": fmt.Sprintf("%x", c.PK[:3]), "answer": guard})
	})
}

// ---- Dilithium ----

func buildDil(entry, lenKind, k int, hintKind int, seed uint64, honest []byte, pk []byte, msgLen int) *call {
	c := &call{PK: pk}
	msg := pu.DetBytes(seed+9, msgLen)
	body := append([]byte{}, honest...)
	const offHint, offCnt = 32 + 7*640, 32 + 7*640 + 75
	cls := ""
	switch hintKind % 11 {
	case 10:
		// structured zeros: z = 0 (every 20-bit lane holds gamma1) and / or a public key whose t1 part is all zero, the
		// honest hint section kept: the verifier's w' = A*z - c*t1*2^d is then exactly 0 (or has long runs of exact
		// zeros), so the hinted coefficients have low part 0 - a value honest signatures meet once in 10^4
		zeroZ, zeroT1 := seed&1 == 0, seed&2 == 0 || seed&1 != 0
		if zeroZ {
			for i := 32; i < offHint; i += 5 {
				copy(body[i:i+5], []byte{0x00, 0x00, 0x08, 0x00, 0x80})
			}
		}
		if zeroT1 {
			np := append([]byte{}, pk...)
			for i := 32; i < len(np); i++ {
				np[i] = 0
			}
			c.PK = np
		}
		cls = fmt.Sprintf("zero-response=%v/zero-t1=%v/honest-hints", zeroZ, zeroT1)
	case 9:
		// a challenge seed whose expansion consumes unusually many stream bytes (found offline, see pu.HungryChallengeSeeds)
		cs, nb := pu.HungryChallengeSeed(int(seed % 1000))
		copy(body, cs)
		cls = fmt.Sprintf("challenge-seed-consuming-%d-stream-bytes", nb)
	case 8:
		body = pu.HintChain(body, int(seed%8), byte(76+(seed>>8)%180), seed>>16)
		cls = "count-chain-past-the-section"
	case 0:
		cls = "honest"
	case 1:
		for i := 0; i < 8; i++ {
			body[offCnt+i] = byte(seed >> uint(8*i)) // every count byte arbitrary (0..255)
		}
		cls = "count-bytes-arbitrary"
	case 2:
		body[offCnt+int(seed%8)] = byte(76 + seed%180)
		cls = "count-over-75"
	case 3:
		copy(body[offHint:], pu.DetBytes(seed, 83))
		cls = "hint-section-random"
	case 4:
		for i := offHint; i < offCnt; i++ {
			body[i] = 0xff
		}
		for i := 0; i < 8; i++ {
			body[offCnt+i] = 75
		}
		cls = "hints-all-255-counts-75"
	case 5:
		copy(body, pu.DetBytes(seed, len(body)))
		cls = "garbage"
	case 6:
		for i := range body {
			body[i] = 0xff
		}
		cls = "all-0xFF"
	default:
		for i := range body {
			body[i] = 0
		}
		cls = "all-zero"
	}
	if entry%2 == 0 {
		c.Entry = "dilithium.Verify"
		c.Sig, c.Msg = body, msg
	} else {
		c.Entry = "dilithium.Open"
		var n int
		switch lenKind % 6 {
		case 0:
			n = k % 3
		case 1:
			n = dilithium.CryptoBytes - 1
		case 2:
			n = dilithium.CryptoBytes
		case 3:
			n = dilithium.CryptoBytes + 1
		case 4:
			n = k * 97 % dilithium.CryptoBytes
		default:
			n = dilithium.CryptoBytes + len(msg)
		}
		sm := append(append([]byte{}, body...), msg...)
		for len(sm) < n {
			sm = append(sm, 0)
		}
		c.Sig = sm[:n]
		cls += fmt.Sprintf("/sealed-len-%d", n)
	}
	c.Class = cls
	return c
}

func TestDilithiumHostile(t *testing.T) {
	r := ev.New(t, prop, "TestDilithiumHostile")
	r.Rule("rapid: dilithium.Verify and Open with sealed messages of length {0,1,2, CryptoBytes-1, CryptoBytes, CryptoBytes+1, arbitrary shorter, full}, hint sections with every count byte value 0..255 and position bytes 0..255, the strictly-increasing count chain that walks a guard-less decoder past the end of the section, challenge seeds (first 32 bytes) whose expansion consumes 97..102 stream bytes instead of the usual ~75 (found by an offline search), a zero response and / or a zero t1 under honest hints (hinted coefficients with low part exactly 0), garbage / all-zero / all-0xFF signatures, random and honest public keys; oracle: returns (false / nothing / the message), NEVER panics, buffers unchanged; non-trivial = an input whose sealed length is at least CryptoBytes (reaches unpacking), distinct by content")
	d, err := pu.DilKey(pu.DetBytes(r.SubSeed("key"), 48))
	r.Health(err == nil, "keygen")
	pk := d.GetPK()
	checks := r.PerShard(r.Pick(24000, 600000))
	r.Rapid(t, "dh", checks, func(rt *rapid.T) {
		m := pu.DetBytes(rapid.Uint64().Draw(rt, "m"), rapid.IntRange(0, 64).Draw(rt, "mlen"))
		hs, err := d.Sign(m)
		r.Health(err == nil, "sign")
		usePK := pk[:]
		if rapid.IntRange(0, 3).Draw(rt, "rndpk") == 0 {
			usePK = pu.DetBytes(rapid.Uint64().Draw(rt, "pk"), dilithium.CryptoPublicKeyBytes)
		}
		c := buildDil(rapid.IntRange(0, 1).Draw(rt, "entry"), rapid.IntRange(0, 5).Draw(rt, "lenKind"), rapid.IntRange(0, 9999).Draw(rt, "k"), rapid.IntRange(0, 10).Draw(rt, "hintKind"),
			rapid.Uint64().Draw(rt, "seed"), hs[:], usePK, len(m))
		if strings.HasPrefix(c.Class, "honest") && c.Entry == "dilithium.Verify" {
			c.Msg = m
		}
		guard := judge(rt, r, c)
		if len(c.Sig) >= dilithium.CryptoBytes {
			r.NonTrivial(c.Entry, []byte(c.Sig[len(c.Sig)-100:]), []byte(c.Sig[:16]))
		}
		r.Sample(map[string]any{"entry": c.Entry, "class": c.Class, "answer": guard})
	})
}

// ---- addresses ----

func TestAddressesHostile(t *testing.T) {
	r := ev.New(t, prop, "TestAddressesHostile")
	r.Rule("rapid + exhaustive descriptors: IsValidXMSSAddress / IsValidLegacyXMSSAddress / Get(Legacy)XMSSAddressFromPK over ALL 65536 values of the first two descriptor bytes (third byte varied) with random bodies, IsValidDilithiumAddress / GetDilithiumAddressFromPK on random bytes, NewQRLDescriptorFromBytes / LegacyQRLDescriptorFromBytes on descriptor bytes of every length 0..7; oracle: value or explicit string panic (derivations may refuse an unsupported address format), never a runtime fault, inputs unchanged; non-trivial = every call (all 16^4 descriptor nibble combinations enumerated), distinct by (entry, descriptor, body)")
	n := 0
	for d0 := 0; d0 < 256; d0++ {
		for d1 := 0; d1 < 256; d1++ {
			n++
			if !r.Mine(n) {
				continue
			}
			body := pu.DetBytes(r.Seed()+uint64(n), 67)
			body[0], body[1], body[2] = byte(d0), byte(d1), byte(n%3)*0x7f
			for _, e := range []string{"xmss.GetXMSSAddressFromPK", "xmss.GetLegacyXMSSAddressFromPK"} {
				judge(t, r, &call{Entry: e, PK: body, Class: "all-descriptors"})
			}
			judge(t, r, &call{Entry: "xmss.IsValidXMSSAddress", Addr: body[:20], Class: "all-descriptors"})
			judge(t, r, &call{Entry: "xmss.IsValidLegacyXMSSAddress", Addr: body[:39], Class: "all-descriptors"})
			judge(t, r, &call{Entry: "dilithium.IsValidDilithiumAddress", Addr: body[:20], Class: "all-descriptors"})
			// the descriptor decoders on descriptor bytes of every length 0..7 (3 is the only well-formed one)
			for _, e := range []string{"xmss.NewQRLDescriptorFromBytes", "xmss.LegacyQRLDescriptorFromBytes"} {
				judge(t, r, &call{Entry: e, Sig: body[:3], Class: "all-descriptors"})
				judge(t, r, &call{Entry: e, Sig: body[:n%8], Class: "descriptor-bytes-any-length"})
			}
			r.NonTrivialEnum(9)
		}
	}
	r.Exhaustive("all 65536 values of the first two descriptor bytes for the four XMSS address entry points")
	checks := r.PerShard(r.Pick(2000, 60000))
	r.Rapid(t, "addr", checks, func(rt *rapid.T) {
		c := &call{Entry: "dilithium.GetDilithiumAddressFromPK", PK: pu.DetBytes(rapid.Uint64().Draw(rt, "pk"), dilithium.CryptoPublicKeyBytes), Class: "random"}
		switch rapid.IntRange(0, 2).Draw(rt, "fill") {
		case 0:
			c.PK = make([]byte, dilithium.CryptoPublicKeyBytes)
		case 1:
			c.PK = bytes.Repeat([]byte{0xff}, dilithium.CryptoPublicKeyBytes)
		}
		judge(rt, r, c)
		r.NonTrivial(c.Entry, []byte(c.PK[:32]))
		r.Sample(map[string]any{"entry": c.Entry, "pk": pu.Short(c.PK)})
	})
}

// ---- mnemonics ----

func buildPhrase(kind int, seed uint64, n int) string {
	x := seed | 1
	next := func(m int) int { x ^= x << 13; x ^= x >> 7; x ^= x << 17; return int(x>>3) % m }
	word := func() string { return qrl.WordList[next(4096)] }
	var ws []string
	switch kind % 12 {
	case 0: // valid-looking phrase of n words
		for i := 0; i < n; i++ {
			ws = append(ws, word())
		}
		return strings.Join(ws, " ")
	case 1:
		return ""
	case 2:
		return strings.Repeat(" ", n)
	case 3: // arbitrary UTF-8 / binary
		return string(pu.DetBytes(seed, n))
	case 4: // words with a foreign one
		for i := 0; i < n; i++ {
			ws = append(ws, word())
		}
		if n > 0 {
			ws[next(n)] = []string{"", "Aback", "aback\x00", "été", "zzzz", "a b", "\t", "abAck", "ab`ck", "ab{ck", "zz", "{", "~~~~~~", "a", "zurichz", "ab\x80ck", "ab\xe1ck"}[next(17)]
		}
		return strings.Join(ws, " ")
	case 5: // other separators: everywhere, or at one / two / three places between otherwise blank-separated words
		for i := 0; i < n; i++ {
			ws = append(ws, word())
		}
		sep := []string{"  ", "\t", "\n", ",", " ", "\r\n", "\u00a0", "\u2003"}[next(8)]
		if next(3) == 0 || n < 4 {
			return strings.Join(ws, sep)
		}
		p := strings.Join(ws, " ")
		for k := 1 + next(3); k > 0; k-- {
			idx := 0
			for j := 1 + next(n-1); j > 0; j-- {
				nx := strings.Index(p[idx:], " ")
				if nx < 0 {
					break
				}
				idx += nx + 1
			}
			if idx > 0 {
				p = p[:idx-1] + sep + p[idx:]
			}
		}
		return p
	case 6: // very long
		for i := 0; i < n*1000; i++ {
			ws = append(ws, word())
		}
		return strings.Join(ws, " ")
	case 7: // one huge token
		return strings.Repeat("a", n*1000)
	case 8: // invalid UTF-8 between valid words
		for i := 0; i < n; i++ {
			ws = append(ws, word())
		}
		return strings.Join(ws, " ") + " \xff\xfe"
	case 9: // the accepted sizes +- 1 word, and word counts whose decoded size equals 48 / 51 modulo 256
		k := []int{31, 32, 33, 34, 35, 544, 546, 1056, 1058, 202, 204}[next(11)]
		for i := 0; i < k; i++ {
			ws = append(ws, word())
		}
		return strings.Join(ws, " ")
	case 10: // trailing / leading separators
		for i := 0; i < 32; i++ {
			ws = append(ws, word())
		}
		return []string{" ", "", "\n"}[next(3)] + strings.Join(ws, " ") + []string{" ", "\n", "  "}[next(3)]
	default: // repeated single word
		return strings.TrimSpace(strings.Repeat(word()+" ", n))
	}
}

func TestMnemonicHostile(t *testing.T) {
	r := ev.New(t, prop, "TestMnemonicHostile")
	r.Rule("rapid: misc.MnemonicToSeedBin / MnemonicToExtendedSeedBin / dilithium.NewDilithiumFromMnemonic on phrases of 0..100 list words (incl. 31..35), empty, only spaces, arbitrary bytes / invalid UTF-8, foreign words, other separators, 10^3..10^5-word phrases, one huge token; oracle: 48/51 bytes or an explicit string panic, never a runtime fault (e.g. an index past the result buffer); non-trivial = a phrase with an even number of list words (passes the count and lookup guards), distinct by content")
	checks := r.PerShard(r.Pick(6000, 200000))
	r.Rapid(t, "mn", checks, func(rt *rapid.T) {
		kind := rapid.IntRange(0, 11).Draw(rt, "kind")
		n := rapid.IntRange(0, 100).Draw(rt, "n")
		if (kind == 6 || kind == 7) && rapid.IntRange(0, 9).Draw(rt, "long") != 0 {
			kind = 0
		}
		c := &call{Entry: rapid.SampledFrom([]string{"misc.MnemonicToSeedBin", "misc.MnemonicToSeedBin", "misc.MnemonicToExtendedSeedBin", "misc.MnemonicToExtendedSeedBin", "dilithium.NewDilithiumFromMnemonic"}).Draw(rt, "entry"), Phrase: buildPhrase(kind, rapid.Uint64().Draw(rt, "seed"), n), Class: fmt.Sprintf("kind-%d", kind)}
		guard := judge(rt, r, c)
		if strings.HasPrefix(guard, "returned") || strings.Contains(guard, "output size") {
			r.NonTrivial(c.Entry, c.Phrase)
		}
		ph := c.Phrase
		if len(ph) > 50 {
			ph = fmt.Sprintf("%q…(%d bytes)", ph[:50], len(ph))
		}
		r.Sample(map[string]any{"entry": c.Entry, "phrase": ph, "answer": guard})
	})
}
