package c14

import (
	"encoding/binary"
	"testing"

	"github.com/theQRL/go-qrllib/dilithium"
	"verifharness/ev"
	"verifharness/pu"
)

// Native fuzz targets (thorough tier): the fuzz bytes are decoded into the same structured choices the
// rapid generators draw, so the fuzzer spends its time behind the size and descriptor guards; the oracle
// is the same run(): a runtime fault, a refusal by Dilithium or a modified buffer fails the target and
// the failing case is written as a replay by the worker that found it.

func u64(b []byte, i int) uint64 {
	var t [8]byte
	if i < len(b) {
		copy(t[:], b[i:])
	}
	return binary.LittleEndian.Uint64(t[:])
}

func at(b []byte, i int) int {
	if i < len(b) {
		return int(b[i])
	}
	return 0
}

func FuzzXMSSVerify(f *testing.F) {
	r := ev.New(f, prop, "FuzzXMSSVerify")
	r.Rule("native go fuzzing (coverage-guided, 16 workers): bytes decoded into (w, length class, k, delta, descriptor kind and nibbles, content kind, content seed, message length) for xmss.Verify / VerifyWithCustomWOTSParamW; corpus seeded with valid and hostile constants; same oracle as the rapid test")
	f.Add([]byte{0, 7, 0, 1, 0, 1, 2, 0, 3, 1, 2, 3, 4, 5, 6, 7, 8, 13})
	f.Add([]byte{2, 1, 0, 0, 1, 255, 255, 255, 2})
	f.Add([]byte{3, 4, 63, 2, 2, 3, 15, 0, 4})
	f.Add([]byte{1, 6, 1, 1, 0, 0, 1, 0, 3, 9, 9, 9, 9, 9, 9, 9, 9, 0})
	f.Add([]byte{0, 0, 36, 0, 1, 16, 0, 0, 0})
	f.Add([]byte{2, 8, 3, 0, 0, 1, 0, 0, 3})
	f.Add([]byte{3, 8, 20, 0, 0, 2, 0, 0, 3})
	f.Add([]byte{})
	f.Fuzz(func(t *testing.T, b []byte) {
		msgLen := -1
		if at(b, 17) > 0 {
			msgLen = at(b, 17) * at(b, 18) % 10001
		}
		c := buildXMSS(at(b, 0), at(b, 1), at(b, 2), at(b, 3), at(b, 4), at(b, 5), at(b, 6), at(b, 7), at(b, 8), u64(b, 9), msgLen)
		if len(b) > 19 && len(c.Sig) > 0 { // let the fuzzer write raw bytes into the signature as well
			off := int(u64(b, 9) % uint64(len(c.Sig)))
			copy(c.Sig[off:], b[19:])
		}
		judge(t, r, c)
	})
}

func FuzzDilithiumOpen(f *testing.F) {
	r := ev.New(f, prop, "FuzzDilithiumOpen")
	r.Rule("native go fuzzing: bytes decoded into (entry, sealed-length class, hint-section kind, seed) plus raw bytes overwriting the hint section, for dilithium.Verify / Open; oracle: never panics, buffers unchanged")
	d, err := pu.DilKey(make([]byte, 48))
	if err != nil {
		f.Fatal(err)
	}
	pk := d.GetPK()
	hs, _ := d.Sign([]byte("seed corpus"))
	f.Add([]byte{0, 5, 0, 0, 1, 2, 3, 4, 5, 6, 7, 8})
	f.Add([]byte{1, 2, 0, 1, 255, 255, 255, 255, 255, 255, 255, 255, 75, 75, 75, 75, 75, 75, 75, 76})
	f.Add([]byte{1, 5, 9, 4})
	f.Add([]byte{0, 5, 9, 8, 7, 200, 3, 4, 5, 6, 7, 8})
	f.Add([]byte{1, 0, 1, 5})
	f.Fuzz(func(t *testing.T, b []byte) {
		c := buildDil(at(b, 0), at(b, 1), at(b, 2)*40, at(b, 3), u64(b, 4), hs[:], pk[:], at(b, 2)%65)
		if len(b) > 12 && len(c.Sig) >= dilithium.CryptoBytes {
			off := dilithium.CryptoBytes - 83
			if len(b)-12 > 83 {
				off = int(u64(b, 4) % uint64(dilithium.CryptoBytes-len(b)+12+1))
				if off < 0 {
					off = 0
				}
			}
			copy(c.Sig[off:dilithium.CryptoBytes], b[12:])
		}
		judge(t, r, c)
	})
}

func FuzzMnemonic(f *testing.F) {
	r := ev.New(f, prop, "FuzzMnemonic")
	r.Rule("native go fuzzing: the raw fuzz string (corpus seeded with valid 32/34-word phrases and hostile constants) given to MnemonicToSeedBin / MnemonicToExtendedSeedBin; oracle: bytes or an explicit string panic")
	f.Add(buildPhrase(0, 1, 32), true)
	f.Add(buildPhrase(0, 2, 34), false)
	f.Add(buildPhrase(0, 3, 33), true)
	f.Add("", true)
	f.Add(" ", false)
	f.Add("aback  abbey", true)
	f.Add(pu.DilKATMnemonic, true)
	f.Fuzz(func(t *testing.T, s string, which bool) {
		c := &call{Entry: "misc.MnemonicToSeedBin", Phrase: s, Class: "fuzz"}
		if !which {
			c.Entry = "misc.MnemonicToExtendedSeedBin"
		}
		judge(t, r, c)
	})
}
