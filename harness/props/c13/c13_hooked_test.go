//go:build verif

package c13

import (
	"bytes"
	"encoding/json"
	"fmt"
	"testing"

	"github.com/theQRL/go-qrllib/dilithium"
	"pgregory.net/rapid"
	"verifharness/ev"
	"verifharness/pu"
	"verifharness/ref/dilref"
)

type packer struct {
	name   string
	bits   int
	lo, hi int64 // coefficient range (inclusive)
	bytes  int
	pack   func(r []uint8, a *[256]int32)
	unpack func(a []uint8) [256]int32 // nil: the library has no unpacker (w1)
	ref    func(p *dilref.Poly) []byte
}

var packers = []packer{
	{"eta", 3, -2, 2, 96, dilithium.VerifPolyEtaPack, dilithium.VerifPolyEtaUnpack, dilref.PackEta},
	{"t1", 10, 0, 1023, 320, dilithium.VerifPolyT1Pack, dilithium.VerifPolyT1Unpack, dilref.PackT1},
	{"t0", 13, -4095, 4096, 416, dilithium.VerifPolyT0Pack, dilithium.VerifPolyT0Unpack, dilref.PackT0},
	{"z", 20, -(1<<19 - 1), 1 << 19, 640, dilithium.VerifPolyZPack, dilithium.VerifPolyZUnpack, dilref.PackZ},
	{"w1", 4, 0, 15, 128, dilithium.VerifPolyW1Pack, nil, dilref.PackW1},
}

func packerByName(n string) *packer {
	for i := range packers {
		if packers[i].name == n {
			return &packers[i]
		}
	}
	return nil
}

type polyCase struct {
	Packer string  `json:"packer"`
	Coeffs []int32 `json:"coeffs"`
}

func checkPoly(p *packer, a *[256]int32) (string, string) {
	out := make([]uint8, p.bytes+8)
	for i := range out {
		out[i] = 0xA5 // sentinel: the packer must not write past its length and must set every byte
	}
	p.pack(out[:p.bytes], a)
	for i := p.bytes; i < len(out); i++ {
		if out[i] != 0xA5 {
			return p.name + "/overrun", "packer wrote past its output length"
		}
	}
	// the library hands its packers slices that are LONGER than one polynomial (the rest of the key / signature):
	// whatever follows the polynomial's own bytes must be left alone
	long := make([]uint8, p.bytes+16)
	for i := range long {
		long[i] = 0xA5
	}
	p.pack(long, a)
	for i := p.bytes; i < len(long); i++ {
		if long[i] != 0xA5 {
			return p.name + "/overrun", fmt.Sprintf("%s pack into a longer destination changed byte %d beyond its %d bytes", p.name, i, p.bytes)
		}
	}
	if !bytes.Equal(long[:p.bytes], out[:p.bytes]) {
		return p.name + "/pack", p.name + " pack output depends on the destination slice's length"
	}
	var rp dilref.Poly
	for i := range rp {
		rp[i] = dilref.Mod(int64(a[i]))
	}
	want := p.ref(&rp)
	if !bytes.Equal(out[:p.bytes], want) {
		i := firstDiff(out[:p.bytes], want)
		return p.name + "/pack", fmt.Sprintf("%s pack differs from the generic LSB-first bit writer at byte %d (coefficients around index %d: %v)", p.name, i, i*8/p.bits, a[maxi(0, i*8/p.bits-1):mini(256, i*8/p.bits+2)])
	}
	if p.name == "z" {
		// the signing loop unpacks every new mask into the vector that still holds the previous attempt's mask: the
		// destination's old contents (here the complement pattern and the opposite extreme) must not survive
		for _, fill := range []int32{-1, int32(p.hi), int32(p.lo), 0x55555} {
			var dst [256]int32
			for i := range dst {
				dst[i] = fill ^ int32(i&1)
			}
			dilithium.VerifPolyZUnpackInto(&dst, out[:p.bytes])
			if dst != *a {
				for i := range dst {
					if dst[i] != a[i] {
						return "z/roundtrip-dirty-destination", fmt.Sprintf("z unpack into a polynomial that held %d before: position %d becomes %d instead of %d", fill^int32(i&1), i, dst[i], a[i])
					}
				}
			}
		}
	}
	if p.unpack != nil {
		back := p.unpack(out[:p.bytes])
		if back != *a {
			for i := range back {
				if back[i] != a[i] {
					return p.name + "/roundtrip", fmt.Sprintf("%s unpack(pack(v)) differs at position %d: %d -> %d (neighbours %v)", p.name, i, a[i], back[i], a[maxi(0, i-1):mini(256, i+2)])
				}
			}
		}
	}
	return "", ""
}

func maxi(a, b int) int {
	if a > b {
		return a
	}
	return b
}
func mini(a, b int) int {
	if a < b {
		return a
	}
	return b
}
func firstDiff(a, b []byte) int {
	for i := 0; i < len(a) && i < len(b); i++ {
		if a[i] != b[i] {
			return i
		}
	}
	return -1
}

func TestValuePositionSweep(t *testing.T) {
	r := ev.New(t, prop, "TestValuePositionSweep")
	r.Rule("for each packer (eta 5 values, t1 1024, t0 8192, z 2^20, w1 16) the family p_k[pos] = lo + ((k + pos*stride) mod range), k over the whole range, so that EVERY (value, position) pair occurs; plus both extremes at every position surrounded by the opposite extreme (lane bleed); oracles unpack(pack(v)) == v (for z also into a destination that still holds other values, as in the signing loop), pack == generic LSB-first bit writer, no write past the output; non-trivial = polynomials holding an extreme value in a lane that crosses a byte boundary, counted exactly")
	nt, n := 0, 0
	for _, p := range packers {
		p := p
		rng := p.hi - p.lo + 1
		stride := int64(7919) % rng
		if stride == 0 || rng%stride == 0 && stride != 1 {
			stride = 1
		}
		for k := int64(0); k < rng; k++ {
			if !r.Mine(int(k)) {
				continue
			}
			var a [256]int32
			ext := false
			for pos := range a {
				v := p.lo + (k+int64(pos)*stride)%rng
				a[pos] = int32(v)
				if (v == p.lo || v == p.hi) && (pos*p.bits)%8+p.bits > 8 {
					ext = true
				}
			}
			if key, msg := checkPoly(&p, &a); key != "" {
				r.Check(t, false, key, &polyCase{p.name, a[:]}, "%s", msg)
			}
			n++
			if ext {
				nt++
			}
		}
		// extremes with complementary neighbours
		for pos := 0; pos < 256; pos++ {
			if !r.Mine(pos) {
				continue
			}
			for _, pair := range [][2]int64{{p.lo, p.hi}, {p.hi, p.lo}} {
				var a [256]int32
				for i := range a {
					a[i] = int32(pair[1])
				}
				a[pos] = int32(pair[0])
				if key, msg := checkPoly(&p, &a); key != "" {
					r.Check(t, false, key, &polyCase{p.name, a[:]}, "%s", msg)
				}
				n++
				nt++
			}
		}
		r.Exhaustive(fmt.Sprintf("every (value, position) pair of the %s packer (%d values x 256 positions)", p.name, rng))
	}
	r.Eval(n)
	r.NonTrivialEnum(nt)
	r.Sample(map[string]any{"packer": "t0", "family": "p_k[pos] = -4095 + ((k + pos*7919) mod 8192)", "k": "0..8191"})
}

// ---- pack(unpack(bytes)) == bytes ----

type bytesCase struct {
	Packer string `json:"packer"`
	Bytes  pu.HB  `json:"bytes"`
}

func checkBytes(c *bytesCase) (string, string) {
	p := packerByName(c.Packer)
	a := p.unpack(c.Bytes)
	for i, v := range a {
		if int64(v) < p.lo || int64(v) > p.hi {
			return p.name + "/unpack-range", fmt.Sprintf("%s unpack produced coefficient %d at position %d outside [%d,%d]", p.name, v, i, p.lo, p.hi)
		}
	}
	out := make([]uint8, p.bytes)
	p.pack(out, &a)
	if !bytes.Equal(out, c.Bytes) {
		return p.name + "/bytes-roundtrip", fmt.Sprintf("%s pack(unpack(bytes)) differs at byte %d", p.name, firstDiff(out, c.Bytes))
	}
	return "", ""
}

func TestBytesRoundTrip(t *testing.T) {
	r := ev.New(t, prop, "TestBytesRoundTrip")
	r.Rule("random byte strings (uniform, all 0x00, all 0xFF, alternating) through unpack then pack for t1, t0, z (every lane value is in range) and for eta with lanes restricted to 0..4; oracle pack(unpack(b)) == b and every decoded coefficient in range; non-trivial = every case (256 lanes each), distinct by content")
	checks := r.PerShard(r.Pick(40000, 1500000))
	r.Rapid(t, "bytes", checks, func(rt *rapid.T) {
		p := packerByName(rapid.SampledFrom([]string{"eta", "t1", "t0", "z"}).Draw(rt, "packer"))
		c := &bytesCase{Packer: p.name}
		kind := rapid.IntRange(0, 5).Draw(rt, "content")
		if p.name == "eta" {
			var rp dilref.Poly
			x := rapid.Uint64().Draw(rt, "seed") | 1
			for i := range rp {
				x ^= x << 13
				x ^= x >> 7
				x ^= x << 17
				lane := int64(x>>3) % 5
				if kind == 0 {
					lane = 0
				} else if kind == 1 {
					lane = 4
				}
				rp[i] = dilref.Mod(2 - lane)
			}
			c.Bytes = dilref.PackEta(&rp)
		} else {
			switch kind {
			case 0:
				c.Bytes = make([]byte, p.bytes)
			case 1:
				c.Bytes = bytes.Repeat([]byte{0xff}, p.bytes)
			case 2:
				c.Bytes = bytes.Repeat([]byte{0xaa, 0x55}, p.bytes/2)
			default:
				c.Bytes = pu.DetBytes(rapid.Uint64().Draw(rt, "seed"), p.bytes)
			}
		}
		key, msg := checkBytes(c)
		r.Eval(1)
		r.NonTrivial(p.name, []byte(c.Bytes))
		r.Count("packer_"+p.name, 1)
		r.Sample(map[string]any{"packer": p.name, "bytes": pu.Short(c.Bytes)})
		r.Check(rt, key == "", key, c, "%s", msg)
	})
}

// ---- hint vectors and whole signatures ----

type sigParts struct {
	C     pu.HB     `json:"c"`
	ZSeed uint64    `json:"z_seed"`
	Hints [][]uint8 `json:"hints"` // 8 rows of strictly increasing positions
}

func (sp *sigParts) build() (z [7][256]int32, h [8][256]int32) {
	x := sp.ZSeed | 1
	for i := range z {
		for j := range z[i] {
			x ^= x << 13
			x ^= x >> 7
			x ^= x << 17
			z[i][j] = int32(int64(x>>5)%(1<<20)) - (1<<19 - 1)
		}
	}
	// plant the extremes
	z[0][0], z[6][255], z[3][1], z[3][2] = 1<<19, -(1<<19 - 1), 1<<19, -(1<<19 - 1)
	for i, row := range sp.Hints {
		for _, p := range row {
			h[i][p] = 1
		}
	}
	return
}

func checkSigParts(sp *sigParts) (string, string) {
	z, h := sp.build()
	sig, err := dilithium.VerifPackSig(sp.C, &z, &h)
	if err != nil {
		return "packSig/error", err.Error()
	}
	// reference encoding
	var want []byte
	want = append(want, sp.C...)
	for i := range z {
		var rp dilref.Poly
		for j := range rp {
			rp[j] = dilref.Mod(int64(z[i][j]))
		}
		want = append(want, dilref.PackZ(&rp)...)
	}
	var rh [8]dilref.Poly
	for i := range h {
		for j := range h[i] {
			rh[i][j] = int64(h[i][j])
		}
	}
	want = append(want, dilref.EncodeHints(&rh)...)
	if !bytes.Equal(sig[:], want) {
		return "packSig/encoding", fmt.Sprintf("packSig differs from the specification encoding at byte %d", firstDiff(sig[:], want))
	}
	// the encoder must produce the same bytes whatever the destination held before
	for _, fill := range []byte{0xff, 0x01, 0x4b} {
		dirty := bytes.Repeat([]byte{fill}, dilithium.CryptoBytes)
		if err := dilithium.VerifPackSigInto(dirty, sp.C, &z, &h); err != nil || !bytes.Equal(dirty, want) {
			return "packSig/depends-on-destination", fmt.Sprintf("packSig into a buffer pre-filled with %#02x differs from the specification encoding at byte %d (err=%v): stale bytes survive", fill, firstDiff(dirty, want), err)
		}
	}
	c2, z2, h2, rc := dilithium.VerifUnpackSig(sig)
	if rc != 0 {
		return "unpackSig/rejects-canonical", "unpackSig rejects a canonical encoding produced by packSig"
	}
	if !bytes.Equal(c2[:], sp.C) || z2 != z || h2 != h {
		return "unpackSig/roundtrip", "unpackSig(packSig(c,z,h)) != (c,z,h)"
	}
	return "", ""
}

func drawHints(rt *rapid.T) [][]uint8 {
	rows := make([][]uint8, 8)
	kind := rapid.SampledFrom([]string{"random", "weight75", "weight0", "one-full-row", "ends", "consecutive", "first-rows-empty", "weight74"}).Draw(rt, "hintKind")
	total := 0
	add := func(i int, p int) {
		for _, q := range rows[i] {
			if int(q) == p {
				return
			}
		}
		if total < 75 {
			rows[i] = append(rows[i], uint8(p))
			total++
		}
	}
	switch kind {
	case "weight0":
	case "one-full-row":
		i := rapid.IntRange(0, 7).Draw(rt, "row")
		for p := 0; p < 75; p++ {
			add(i, rapid.IntRange(0, 255).Draw(rt, "p"))
		}
	case "ends":
		for i := 0; i < 8; i++ {
			add(i, 0)
			add(i, 255)
		}
	case "consecutive":
		i, s := rapid.IntRange(0, 7).Draw(rt, "row"), rapid.IntRange(0, 200).Draw(rt, "start")
		for p := s; p < s+rapid.IntRange(2, 40).Draw(rt, "len"); p++ {
			add(i, p)
		}
	default:
		w := rapid.IntRange(0, 75).Draw(rt, "weight")
		if kind == "weight75" {
			w = 75
		}
		if kind == "weight74" {
			w = 74
		}
		lo := 0
		if kind == "first-rows-empty" {
			lo = rapid.IntRange(1, 7).Draw(rt, "firstRow")
		}
		for n := 0; n < 4*w && total < w; n++ {
			add(rapid.IntRange(lo, 7).Draw(rt, "row"), rapid.IntRange(0, 255).Draw(rt, "pos"))
		}
	}
	for i := range rows {
		// sort ascending (insertion)
		for a := 1; a < len(rows[i]); a++ {
			for b := a; b > 0 && rows[i][b] < rows[i][b-1]; b-- {
				rows[i][b], rows[i][b-1] = rows[i][b-1], rows[i][b]
			}
		}
	}
	return rows
}

func weight(rows [][]uint8) (w int, empty bool) {
	for _, r := range rows {
		w += len(r)
		if len(r) == 0 {
			empty = true
		}
	}
	return
}

func TestHintVectors(t *testing.T) {
	r := ev.New(t, prop, "TestHintVectors")
	r.Rule("rapid hint vectors of every admissible weight 0..75 (incl. exactly 75 and 74, empty rows, one full row, positions 0 and 255, consecutive positions) with random c~ and z (extremes planted): packSig == specification encoding, unpackSig(packSig(c,z,h)) == (c,z,h); non-trivial = weight >= 70 or an empty row, distinct by content")
	checks := r.PerShard(r.Pick(20000, 600000))
	r.Rapid(t, "hints", checks, func(rt *rapid.T) {
		sp := &sigParts{C: pu.DetBytes(rapid.Uint64().Draw(rt, "c"), 32), ZSeed: rapid.Uint64().Draw(rt, "z"), Hints: drawHints(rt)}
		key, msg := checkSigParts(sp)
		w, empty := weight(sp.Hints)
		r.Eval(1)
		r.Count(fmt.Sprintf("weight_%02d-%02d", w/10*10, w/10*10+9), 1)
		if w >= 70 || empty {
			r.NonTrivial("h", fmt.Sprint(sp.Hints), sp.ZSeed)
		}
		r.Sample(map[string]any{"weight": w, "rows": sp.Hints})
		r.Check(rt, key == "", key, sp, "%s", msg)
	})
}

// ---- accepted byte strings are canonical ----

type strCase struct {
	Class string `json:"class"`
	Sig   pu.HB  `json:"sig"`
}

func checkString(r *ev.Recorder, c *strCase) (string, string) {
	var s [dilithium.CryptoBytes]byte
	copy(s[:], c.Sig)
	var cc [32]uint8
	var z [7][256]int32
	var h [8][256]int32
	var rc int
	if o := ev.Try(func() { cc, z, h, rc = dilithium.VerifUnpackSig(s) }); o.Panicked {
		return "unpackSig/panic", fmt.Sprintf("%s: %s", c.Class, o)
	}
	_, specOK := dilref.DecodeHints(c.Sig[32+7*640:])
	if (rc == 0) != specOK {
		return "unpackSig/acceptance", fmt.Sprintf("%s: unpackSig returns %d but the specification's hint decoder says canonical=%v", c.Class, rc, specOK)
	}
	if rc != 0 {
		r.Count("rejected_by_decoder", 1)
		return "", "" // rejected: the canonical-form implication is vacuous
	}
	r.Count("accepted_by_decoder", 1)
	back, err := dilithium.VerifPackSig(cc[:], &z, &h)
	if err != nil || !bytes.Equal(back[:], c.Sig) {
		return "unpackSig/not-canonical", fmt.Sprintf("%s: the decoder accepts this byte string but re-encoding the decoded value changes byte %d (err=%v)", c.Class, firstDiff(back[:], c.Sig), err)
	}
	return "", ""
}

func TestSignatureStrings(t *testing.T) {
	r := ev.New(t, prop, "TestSignatureStrings")
	r.Rule("signature byte strings: honest signatures, valid-by-construction encodings (random c~, random 20-bit z lanes, canonical hint section of drawn weight), then 0..3 drawn edits of the hint section (swap, duplicate, padding byte, count byte +-, random byte) - whatever the decoder accepts must re-encode to exactly the same bytes, and the decoder's accept/reject must equal the specification's hint decoder; non-trivial = a string the decoder accepts after at least one edit, or any string with weight >= 70, distinct by content; rejected strings are counted separately (implication vacuous)")
	d, err := pu.DilKey(pu.DetBytes(r.SubSeed("key"), 48))
	r.Health(err == nil, "keygen")
	const offHint, offCnt = 32 + 7*640, 32 + 7*640 + 75
	checks := r.PerShard(r.Pick(30000, 1000000))
	r.Rapid(t, "strings", checks, func(rt *rapid.T) {
		c := &strCase{}
		if rapid.IntRange(0, 7).Draw(rt, "honest") == 0 {
			s, err := d.Sign(pu.Msg(64).Draw(rt, "msg"))
			r.Health(err == nil, "sign")
			c.Sig, c.Class = s[:], "honest"
		} else {
			sp := &sigParts{C: pu.DetBytes(rapid.Uint64().Draw(rt, "c"), 32), ZSeed: rapid.Uint64().Draw(rt, "z"), Hints: drawHints(rt)}
			if rapid.IntRange(0, 3).Draw(rt, "sameC") == 0 {
				sp.C = make([]byte, 32) // same challenge bytes as other strings, different z and hints
			}
			z, h := sp.build()
			s, err := dilithium.VerifPackSig(sp.C, &z, &h)
			r.Health(err == nil, "packSig")
			c.Sig, c.Class = s[:], "constructed"
		}
		edits := rapid.IntRange(0, 3).Draw(rt, "edits")
		for e := 0; e < edits; e++ {
			o := append([]byte{}, c.Sig...)
			total := int(o[offCnt+7])
			if total > 75 {
				total = 75
			}
			kind := rapid.SampledFrom([]string{"last-counts-lowered", "position-after-255", "swap", "duplicate", "padding", "padding-pair-sum-zero", "count+1", "count-1", "count-any", "random-position-byte", "z-byte", "count-chain", "empty-row-count-zeroed", "empty-row-count-zeroed"}).Draw(rt, "edit")
			switch kind {
			case "last-counts-lowered":
				// rewrite the hint section: rows 0..r-1 keep a few hints, rows r..6 hold only position 0, row 7 is empty;
				// then the last count byte is lowered by the number of such rows (counts no longer non-decreasing)
				for i := offHint; i < offCnt+8; i++ {
					o[i] = 0
				}
				r0 := rapid.IntRange(3, 6).Draw(rt, "firstZeroRow")
				k := 0
				for row := 0; row < 8; row++ {
					switch {
					case row < r0:
						o[offHint+k] = byte(10 + 20*row)
						k++
					case row < 7:
						o[offHint+k] = 0
						k++
					}
					o[offCnt+row] = byte(k)
				}
				o[offCnt+7] = byte(k - rapid.IntRange(1, 7-r0).Draw(rt, "lower"))
			case "empty-row-count-zeroed":
				// rows with hints, one EMPTY row somewhere after the first non-empty one (its count repeats the previous
				// count - that is canonical), then that count byte is set to 0 (or to any smaller value): no longer monotone
				for i := offHint; i < offCnt+8; i++ {
					o[i] = 0
				}
				empty := rapid.IntRange(1, 7).Draw(rt, "emptyRow")
				k := 0
				for row := 0; row < 8; row++ {
					if row != empty {
						for n := rapid.IntRange(1, 3).Draw(rt, "n"); n > 0 && k < 70; n-- {
							o[offHint+k] = byte(40*(3-n) + row)
							k++
						}
					}
					o[offCnt+row] = byte(k)
				}
				if rapid.Bool().Draw(rt, "zero") {
					o[offCnt+empty] = 0
				} else {
					o[offCnt+empty] = byte(rapid.IntRange(0, int(o[offCnt+empty])-1).Draw(rt, "smaller"))
				}
			case "position-after-255":
				// a row that ends at position 255 followed by one more position byte (count bumped)
				for i := offHint; i < offCnt+8; i++ {
					o[i] = 0
				}
				row := rapid.IntRange(0, 7).Draw(rt, "row")
				o[offHint], o[offHint+1], o[offHint+2] = 17, 255, byte(rapid.SampledFrom([]int{255, 17, 0, 200}).Draw(rt, "extra"))
				for i := row; i < 8; i++ {
					o[offCnt+i] = 3
				}
			case "padding-pair-sum-zero":
				// two (or three) non-zero padding bytes whose sum is 0 mod 256
				if total <= 72 {
					a := rapid.IntRange(total, 73).Draw(rt, "p1")
					b := rapid.IntRange(a+1, 74).Draw(rt, "p2")
					v := byte(rapid.IntRange(1, 255).Draw(rt, "v"))
					o[offHint+a], o[offHint+b] = v, byte(256-int(v))
				}
			case "count-chain":
				o = pu.HintChain(o, rapid.IntRange(0, 7).Draw(rt, "row"), byte(rapid.IntRange(76, 255).Draw(rt, "v")), rapid.Uint64().Draw(rt, "chain"))
			case "swap":
				if total >= 2 {
					a := rapid.IntRange(0, total-2).Draw(rt, "a")
					o[offHint+a], o[offHint+a+1] = o[offHint+a+1], o[offHint+a]
				}
			case "duplicate":
				if total >= 1 && total < 75 {
					a := rapid.IntRange(0, total-1).Draw(rt, "a")
					copy(o[offHint+a+1:offHint+total+1], c.Sig[offHint+a:offHint+total])
					for i := 0; i < 8; i++ {
						if int(o[offCnt+i]) > a {
							o[offCnt+i]++
						}
					}
				}
			case "padding":
				if total < 75 {
					o[offHint+rapid.IntRange(total, 74).Draw(rt, "p")] = byte(rapid.IntRange(1, 255).Draw(rt, "v"))
				}
			case "count+1":
				o[offCnt+rapid.IntRange(0, 7).Draw(rt, "row")]++
			case "count-1":
				o[offCnt+rapid.IntRange(0, 7).Draw(rt, "row")]--
			case "count-any":
				o[offCnt+rapid.IntRange(0, 7).Draw(rt, "row")] = rapid.Byte().Draw(rt, "v")
			case "random-position-byte":
				o[offHint+rapid.IntRange(0, 74).Draw(rt, "p")] = rapid.Byte().Draw(rt, "v")
			case "z-byte":
				o[32+rapid.IntRange(0, 7*640-1).Draw(rt, "p")] = rapid.Byte().Draw(rt, "v")
			}
			c.Sig = o
			c.Class += "+" + kind
		}
		before := r.Counter("accepted_by_decoder")
		key, msg := checkString(r, c)
		r.Eval(1)
		if r.Counter("accepted_by_decoder") > before && (edits > 0 || c.Sig[offCnt+7] >= 70) {
			r.NonTrivial("str", []byte(c.Sig[offHint:]), []byte(c.Sig[:8]))
		}
		r.Sample(map[string]any{"class": c.Class, "hint_section": pu.Short(c.Sig[offHint:])})
		r.Check(rt, key == "", key, c, "%s", msg)
	})
}

// ---- public / secret key encodings ----

type keyCase struct {
	Kind  string `json:"kind"` // pk-bytes, sk-bytes, pk-values, sk-values
	Bytes pu.HB  `json:"bytes,omitempty"`
	Seed  uint64 `json:"seed,omitempty"`
}

func checkKey(c *keyCase) (string, string) {
	x := c.Seed | 1
	next := func(n int64) int64 { x ^= x << 13; x ^= x >> 7; x ^= x << 17; return int64(x>>3) % n }
	switch c.Kind {
	case "pk-bytes":
		var pk [dilithium.CryptoPublicKeyBytes]byte
		copy(pk[:], c.Bytes)
		rho, t1 := dilithium.VerifUnpackPk(&pk)
		if back := dilithium.VerifPackPk(rho, &t1); back != pk {
			return "pk/bytes-roundtrip", fmt.Sprintf("packPk(unpackPk(bytes)) differs at byte %d", firstDiff(back[:], pk[:]))
		}
		for i := range t1 {
			ref := dilref.UnpackT1(pk[32+320*i : 32+320*(i+1)])
			for j := range ref {
				if int64(t1[i][j]) != ref[j] {
					return "pk/unpack", fmt.Sprintf("unpackPk t1[%d][%d] = %d, generic bit reader gives %d", i, j, t1[i][j], ref[j])
				}
			}
		}
	case "sk-bytes":
		var sk [dilithium.CryptoSecretKeyBytes]byte
		copy(sk[:], c.Bytes)
		rho, tr, key, t0, s1, s2 := dilithium.VerifUnpackSk(&sk)
		if back := dilithium.VerifPackSk(rho, tr, key, &t0, &s1, &s2); back != sk {
			return "sk/bytes-roundtrip", fmt.Sprintf("packSk(unpackSk(bytes)) differs at byte %d", firstDiff(back[:], sk[:]))
		}
		k := dilref.KeysFromSK(sk[:], nil)
		for i := range s1 {
			for j := range s1[i] {
				if int64(s1[i][j]) != dilref.Centre(k.S1[i][j]) {
					return "sk/unpack", fmt.Sprintf("unpackSk s1[%d][%d] = %d, generic bit reader gives %d", i, j, s1[i][j], dilref.Centre(k.S1[i][j]))
				}
			}
		}
		for i := range s2 {
			for j := range s2[i] {
				if int64(s2[i][j]) != dilref.Centre(k.S2[i][j]) || int64(t0[i][j]) != dilref.Centre(k.T0[i][j]) {
					return "sk/unpack", fmt.Sprintf("unpackSk s2/t0[%d][%d] differs from the generic bit reader", i, j)
				}
			}
		}
		if !bytes.Equal(rho[:], sk[0:32]) || !bytes.Equal(key[:], sk[32:64]) || !bytes.Equal(tr[:], sk[64:96]) {
			return "sk/seeds", "unpackSk returns rho/key/tr in the wrong order"
		}
	case "pk-values":
		var rho [32]byte
		var t1 [8][256]int32
		for i := range rho {
			rho[i] = byte(next(256))
		}
		for i := range t1 {
			for j := range t1[i] {
				t1[i][j] = int32(next(1024))
			}
		}
		pk := dilithium.VerifPackPk(rho, &t1)
		r2, t2 := dilithium.VerifUnpackPk(&pk)
		if r2 != rho || t2 != t1 {
			return "pk/values-roundtrip", "unpackPk(packPk(rho,t1)) != (rho,t1)"
		}
	case "sk-values":
		var rho, tr, key [32]byte
		var t0, s2 [8][256]int32
		var s1 [7][256]int32
		for i := range rho {
			rho[i], tr[i], key[i] = byte(next(256)), byte(next(256)), byte(next(256))
		}
		for i := range t0 {
			for j := range t0[i] {
				t0[i][j], s2[i][j] = int32(next(8192)-4095), int32(next(5)-2)
			}
		}
		for i := range s1 {
			for j := range s1[i] {
				s1[i][j] = int32(next(5) - 2)
			}
		}
		sk := dilithium.VerifPackSk(rho, tr, key, &t0, &s1, &s2)
		r2, tr2, k2, t02, s12, s22 := dilithium.VerifUnpackSk(&sk)
		if r2 != rho || tr2 != tr || k2 != key || t02 != t0 || s12 != s1 || s22 != s2 {
			return "sk/values-roundtrip", "unpackSk(packSk(...)) != inputs"
		}
	}
	return "", ""
}

func TestKeyEncodings(t *testing.T) {
	r := ev.New(t, prop, "TestKeyEncodings")
	r.Rule("public and secret key containers: random in-range vectors through pack then unpack (identity), random byte strings through unpack then pack (identity; secret-key eta lanes restricted to 0..4, honest keys included), unpacked values compared with the generic bit reader and field order rho|key|tr checked; non-trivial = every case (>= 2048 coefficients), distinct by content")
	checks := r.PerShard(r.Pick(4000, 150000))
	honest, err := pu.DilKey(pu.DetBytes(r.SubSeed("key"), 48))
	r.Health(err == nil, "keygen")
	r.Rapid(t, "keys", checks, func(rt *rapid.T) {
		c := &keyCase{Kind: rapid.SampledFrom([]string{"pk-bytes", "sk-bytes", "pk-values", "sk-values"}).Draw(rt, "kind"), Seed: rapid.Uint64().Draw(rt, "seed")}
		switch c.Kind {
		case "pk-bytes":
			c.Bytes = pu.DetBytes(c.Seed, dilithium.CryptoPublicKeyBytes)
			if c.Seed%3 == 1 {
				copy(c.Bytes[:32], make([]byte, 32)) // same rho as other cases, different t1
			}
			if c.Seed%8 == 0 {
				pk := honest.GetPK()
				c.Bytes = pk[:]
			}
		case "sk-bytes":
			// start from an honest key so eta lanes are in range, then randomise seeds and t0
			sk := honest.GetSK()
			b := append([]byte{}, sk[:]...)
			if c.Seed%3 != 0 {
				copy(b[:96], pu.DetBytes(c.Seed, 96))
			} // else: the SAME rho|key|tr as other cases with different polynomial sections (a decoder must not key anything on them)
			copy(b[96+15*96:], pu.DetBytes(c.Seed+1, 8*416))
			// permute the eta sections too (in-range lanes stay in range when whole 3-byte groups are rotated)
			rot := int(c.Seed%31) * 3
			eta := append([]byte{}, b[96:96+15*96]...)
			copy(b[96:], append(eta[rot:], eta[:rot]...))
			c.Bytes = b
		}
		key, msg := checkKey(c)
		r.Eval(1)
		r.NonTrivial(c.Kind, c.Seed)
		r.Count("kind_"+c.Kind, 1)
		r.Sample(map[string]any{"kind": c.Kind, "seed": c.Seed})
		r.Check(rt, key == "", key, c, "%s", msg)
	})
}

func init() {
	ev.Register("TestValuePositionSweep", func(t *testing.T, r *ev.Recorder, raw json.RawMessage) {
		var c polyCase
		if err := json.Unmarshal(raw, &c); err != nil {
			t.Fatalf("HARNESS-HEALTH: %v", err)
		}
		var a [256]int32
		copy(a[:], c.Coeffs)
		key, msg := checkPoly(packerByName(c.Packer), &a)
		r.Check(t, key == "", key, &c, "%s", msg)
	})
	ev.Register("TestBytesRoundTrip", func(t *testing.T, r *ev.Recorder, raw json.RawMessage) {
		var c bytesCase
		if err := json.Unmarshal(raw, &c); err != nil {
			t.Fatalf("HARNESS-HEALTH: %v", err)
		}
		key, msg := checkBytes(&c)
		r.Check(t, key == "", key, &c, "%s", msg)
	})
	ev.Register("TestHintVectors", func(t *testing.T, r *ev.Recorder, raw json.RawMessage) {
		var c sigParts
		if err := json.Unmarshal(raw, &c); err != nil {
			t.Fatalf("HARNESS-HEALTH: %v", err)
		}
		key, msg := checkSigParts(&c)
		r.Check(t, key == "", key, &c, "%s", msg)
	})
	ev.Register("TestSignatureStrings", func(t *testing.T, r *ev.Recorder, raw json.RawMessage) {
		var c strCase
		if err := json.Unmarshal(raw, &c); err != nil {
			t.Fatalf("HARNESS-HEALTH: %v", err)
		}
		key, msg := checkString(r, &c)
		r.Check(t, key == "", key, &c, "%s", msg)
	})
	ev.Register("TestKeyEncodings", func(t *testing.T, r *ev.Recorder, raw json.RawMessage) {
		var c keyCase
		if err := json.Unmarshal(raw, &c); err != nil {
			t.Fatalf("HARNESS-HEALTH: %v", err)
		}
		key, msg := checkKey(&c)
		r.Check(t, key == "", key, &c, "%s", msg)
	})
}
