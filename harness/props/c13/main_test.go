// C13 — Dilithium key and signature encodings are lossless and canonical.
// Every engine needs the build-tagged aliases of the unexported packers (c13_hooked_test.go).
package c13

import (
	"testing"

	"verifharness/ev"
)

const prop = "C13"

func TestMain(m *testing.M) {
	ev.Main(m, prop, []ev.Job{
		{Test: "TestValuePositionSweep", Quick: 16, Thorough: 16},
		{Test: "TestBytesRoundTrip", Quick: 4, Thorough: 8},
		{Test: "TestHintVectors", Quick: 4, Thorough: 8},
		{Test: "TestSignatureStrings", Quick: 8, Thorough: 16},
		{Test: "TestKeyEncodings", Quick: 4, Thorough: 8},
	})
}

func TestReplay(t *testing.T)  { ev.StdReplay(t, prop) }
func TestRegress(t *testing.T) { ev.StdRegress(t, prop) }
