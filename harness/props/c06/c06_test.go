// C06 — XMSS keys and signatures are the fixed QRL-XMSS function of their inputs.
// Oracle: byte equality with xmssref (naive full-Merkle-tree implementation that shares
// no code with the library), anchored on the repository's pinned public keys.
package c06

import (
	"bytes"
	"encoding/hex"
	"encoding/json"
	"fmt"
	"testing"

	"github.com/theQRL/go-qrllib/xmss"
	"pgregory.net/rapid"
	"verifharness/ev"
	"verifharness/pu"
	"verifharness/ref/codecref"
	"verifharness/ref/xmssref"
)

const prop = "C06"

func TestMain(m *testing.M) {
	ev.Main(m, prop, []ev.Job{
		{Test: "TestAnchor", Quick: 1, Thorough: 1},
		{Test: "TestWholeLife", Quick: 12, Thorough: 16},
		{Test: "TestHistoryIndependence", Quick: 4, Thorough: 8},
		{Test: "TestTallKey", Quick: 2, Thorough: 6},
	})
}

func TestReplay(t *testing.T)  { ev.StdReplay(t, prop) }
func TestRegress(t *testing.T) { ev.StdRegress(t, prop) }

// ---- anchor: the reference model is "the QRL scheme", not "whatever the library does" ----

func TestAnchor(t *testing.T) {
	r := ev.New(t, prop, "TestAnchor")
	r.Rule("reference model reproduces the public keys / addresses pinned in the repository's own tests (zero seed, SHAKE_128, h=4 and h=6)")
	kats := []struct {
		h        int
		pk, addr string
		legacy   string
	}{
		{4, "010200c25188b585f731c128e2b457069eafd1e3fa3961605af8c58a1aec4d82ac316d3191da3442686282b3d5160f25cf162a517fd2131f83fbf2698a58f9c46afc5d",
			"0102006f4c94686167e4eb233d3e8e80b14abfa2", "01020095f03f084bcb29b96b0529c17ce92c54c1e8290193a93803812ead95e8e6902506b67897"},
		{6, "010300859060f15adc3825adeec85c7483d868e898bc5117d0cff04ab1343916d407af3191da3442686282b3d5160f25cf162a517fd2131f83fbf2698a58f9c46afc5d",
			"0103003a7d5125fd1d014f972c05b715cfa2f6cd", "0103008b0e18dd0bac2c3fdc9a48e10fc466eef899ef074449d12ddf050317b2083527aee74bc3"},
	}
	for _, k := range kats {
		ref := xmssref.NewKey(make([]byte, 48), k.h, xmssref.SHAKE128)
		pk := pu.RefPK(ref, xmss.SHAKE_128)
		a := codecref.XMSSAddress(pk)
		l := codecref.LegacyXMSSAddress(pk)
		r.Health(hex.EncodeToString(pk) == k.pk, "xmssref does not reproduce pinned PK h=%d: %x", k.h, pk)
		r.Health(hex.EncodeToString(a[:]) == k.addr, "codecref address mismatch h=%d", k.h)
		r.Health(hex.EncodeToString(l[:]) == k.legacy, "codecref legacy address mismatch h=%d", k.h)
		r.Eval(3)
		r.NonTrivialEnum(3)
		r.Sample(map[string]any{"h": k.h, "pinned_pk": k.pk, "ref_pk": hex.EncodeToString(pk)})
	}
}

// ---- whole life: every index, byte equality ----

type lifeCase struct {
	Hash    uint   `json:"hash"`
	H       int    `json:"h"`
	Seed    pu.HB  `json:"seed"`
	MsgSeed uint64 `json:"msg_seed"`
	// FailIdx is informational (first index at which a difference was seen)
	FailIdx int `json:"fail_idx,omitempty"`
}

func lifeMsg(c *lifeCase, i int) []byte {
	return pu.DetBytes(c.MsgSeed*1000003+uint64(i)+1, pu.LifeMsgLen(c.MsgSeed, i))
}

// runLife returns "" when everything matches, otherwise (key, message).
func runLife(r *ev.Recorder, c *lifeCase) (string, string) {
	hf := xmss.HashFunction(c.Hash)
	var x *xmss.XMSS
	if o := ev.Try(func() { x = pu.NewXMSS(c.Seed, c.H, hf) }); o.Panicked {
		return "keygen/panic", "NewXMSSFromSeed: " + o.String()
	}
	ref := xmssref.NewKey(c.Seed, c.H, pu.RefHash(hf))
	refPK := pu.RefPK(ref, hf)
	pk := x.GetPK()
	r.Eval(1)
	if !bytes.Equal(pk[:], refPK) {
		return "pk/mismatch", fmt.Sprintf("GetPK=%x reference=%x", pk, refPK)
	}
	if !bytes.Equal(x.GetRoot(), ref.Root()) || !bytes.Equal(x.GetPKSeed(), ref.PubSeed) {
		return "root-or-pubseed/mismatch", "GetRoot/GetPKSeed differ from reference"
	}
	if d := codecref.Desc(c.Hash, 0, uint(c.H), 0); pk[0] != d[0] || pk[1] != d[1] || pk[2] != d[2] {
		return "descriptor/mismatch", fmt.Sprintf("descriptor bytes %x, reference packing %x", pk[:3], d)
	}
	if a, ra := x.GetAddress(), codecref.XMSSAddress(refPK); a != ra {
		return "address/mismatch", fmt.Sprintf("GetAddress=%x reference=%x", a, ra)
	}
	var held, heldCopy []byte // a signature the caller still holds must not change when the key signs again
	for i := 0; i < 1<<uint(c.H); i++ {
		msg := lifeMsg(c, i)
		var sig []byte
		var err error
		if held != nil && !bytes.Equal(held, heldCopy) {
			c.FailIdx = i - 1
			return "signature/changes-after-later-sign", fmt.Sprintf("hash=%s h=%d: the signature returned at index %d was modified by a later Sign call (first changed byte %d)", pu.HashName(hf), c.H, i-2, firstDiff(held, heldCopy))
		}
		if o := ev.Try(func() { sig, err = x.Sign(msg) }); o.Panicked {
			c.FailIdx = i
			return "sign/panic", fmt.Sprintf("Sign at index %d: %s", i, o)
		}
		if err != nil {
			c.FailIdx = i
			return "sign/error", fmt.Sprintf("Sign at index %d: %v", i, err)
		}
		want := ref.Sign(uint32(i), msg)
		r.Eval(1)
		if !bytes.Equal(sig, want) {
			c.FailIdx = i
			return "signature/mismatch", fmt.Sprintf("hash=%s h=%d index=%d: signature differs from reference at byte %d (len %d vs %d)",
				pu.HashName(hf), c.H, i, firstDiff(sig, want), len(sig), len(want))
		}
		r.NonTrivial("life", c.Hash, c.H, []byte(c.Seed), i, msg)
		if i%3 == 0 {
			held, heldCopy = sig, append([]byte{}, sig...)
		}
		// Verify == VerifyWithCustomWOTSParamW(16) on the valid signature and on a damaged one
		v1 := xmss.Verify(msg, sig, pk)
		v2 := xmss.VerifyWithCustomWOTSParamW(msg, sig, pk, 16)
		if !v1 || !v2 {
			c.FailIdx = i
			return "verify/w16-disagree-or-reject", fmt.Sprintf("index %d: Verify=%v VerifyWithCustomWOTSParamW(16)=%v on the reference-equal signature", i, v1, v2)
		}
		if i%8 == int(c.MsgSeed%8) {
			bad := append([]byte{}, sig...)
			bad[(int(c.MsgSeed)+i*131)%len(bad)] ^= 1 << uint(i%8)
			b1 := xmss.Verify(msg, bad, pk)
			b2 := xmss.VerifyWithCustomWOTSParamW(msg, bad, pk, 16)
			r.Eval(1)
			if b1 != b2 {
				c.FailIdx = i
				return "verify/w16-disagree", fmt.Sprintf("index %d: Verify=%v but VerifyWithCustomWOTSParamW(16)=%v on a damaged signature", i, b1, b2)
			}
		}
	}
	return "", ""
}

func firstDiff(a, b []byte) int {
	for i := 0; i < len(a) && i < len(b); i++ {
		if a[i] != b[i] {
			return i
		}
	}
	return -1
}

type combo struct {
	hf   xmss.HashFunction
	h    int
	reps int
}

func lifeCombos(r *ev.Recorder) []combo {
	var cs []combo
	for _, hf := range pu.Hashes {
		if r.Thorough() {
			cs = append(cs, combo{hf, 4, 6}, combo{hf, 6, 4}, combo{hf, 8, 2}, combo{hf, 10, 2}, combo{hf, 10, 1}, combo{hf, 12, 1})
		} else {
			cs = append(cs, combo{hf, 4, 4}, combo{hf, 6, 2}, combo{hf, 6, 2}, combo{hf, 8, 1})
		}
	}
	return cs
}

func TestWholeLife(t *testing.T) {
	r := ev.New(t, prop, "TestWholeLife")
	r.Rule("seeds drawn by rapid (uniform + degenerate) x 3 hash functions x heights {4,6,8 quick; +10,12 thorough}; the library key signs EVERY index in order; each signature is compared byte-for-byte with xmssref.Sign(i,msg); non-trivial = each compared signature (>= 2308 bytes), distinct by (hash,h,seed,index,msg)")
	r.Assume("SHA2_256 and SHAKE_256 have no pinned vector in the repository: for them the reference is an independent reading of the same construction with only the hash primitive switched")
	for ci, cb := range lifeCombos(r) {
		if !r.Mine(ci) {
			continue
		}
		cb := cb
		r.Rapid(t, fmt.Sprintf("life-%d", ci), cb.reps, func(rt *rapid.T) {
			c := &lifeCase{Hash: uint(cb.hf), H: cb.h, Seed: pu.Seed48().Draw(rt, "seed"), MsgSeed: rapid.Uint64().Draw(rt, "msgSeed")}
			key, msg := runLife(r, c)
			r.Count(fmt.Sprintf("keys_%s_h%d", pu.HashName(cb.hf), cb.h), 1)
			r.Sample(map[string]any{"hash": pu.HashName(cb.hf), "h": cb.h, "seed": pu.Short(c.Seed), "signatures_compared": 1 << uint(cb.h)})
			r.Check(rt, key == "", key, c, "%s", msg)
		})
	}
}

func init() {
	ev.Register("TestWholeLife", func(t *testing.T, r *ev.Recorder, raw json.RawMessage) {
		var c lifeCase
		if err := json.Unmarshal(raw, &c); err != nil {
			t.Fatalf("HARNESS-HEALTH: %v", err)
		}
		key, msg := runLife(r, &c)
		r.Check(t, key == "", key, &c, "%s", msg)
	})
	ev.Register("TestTallKey", func(t *testing.T, r *ev.Recorder, raw json.RawMessage) {
		var c histCase
		if err := json.Unmarshal(raw, &c); err != nil {
			t.Fatalf("HARNESS-HEALTH: %v", err)
		}
		key, msg := runHist(r, &c, nil)
		r.Check(t, key == "", key, &c, "%s", msg)
	})
	ev.Register("TestHistoryIndependence", func(t *testing.T, r *ev.Recorder, raw json.RawMessage) {
		var c histCase
		if err := json.Unmarshal(raw, &c); err != nil {
			t.Fatalf("HARNESS-HEALTH: %v", err)
		}
		key, msg := runHist(r, &c, nil)
		r.Check(t, key == "", key, &c, "%s", msg)
	})
}

// ---- history independence: the signature at index i does not depend on how i was reached ----

type histOp struct {
	Jump uint32 `json:"jump"` // SetIndex(cur+Jump) before signing (0 = no SetIndex call)
	Msg  pu.HB  `json:"msg"`
	// W != 0: before this step some OTHER caller verifies a (garbage, well-formed-length) signature for this
	// key's height with Winternitz parameter W; keys and signatures must not depend on such earlier calls
	W uint32 `json:"foreign_verify_w,omitempty"`
}

// PreW in histCase: the same kind of foreign call made BEFORE the key object is created.

type histCase struct {
	Hash uint     `json:"hash"`
	H    int      `json:"h"`
	Seed pu.HB    `json:"seed"`
	PreW uint32   `json:"foreign_verify_w_before_keygen,omitempty"`
	// several foreign calls in a row before key generation (a process-wide memo of "the last parameter set" needs one
	// call to evict the default and a second, look-alike one to poison it)
	PreWs []uint32 `json:"foreign_verify_ws_before_keygen,omitempty"`
	Ops  []histOp `json:"ops"`
}

// foreignVerify makes a verification call with another Winternitz parameter and a signature length that is
// well-formed for that parameter and for height h (content garbage); its own answer is irrelevant here.
func foreignVerify(w uint32, h int, hf xmss.HashFunction) {
	// 17, 5 and 300 pass the library's parameter validation as well (it truncates log2 w) and have the chain counts of
	// 16, 4 and 256
	base := map[uint32]int{4: 4 + 32 + 133*32, 5: 4 + 32 + 133*32, 16: 2180, 17: 2180, 256: 4 + 32 + 34*32, 300: 4 + 32 + 34*32}[w]
	if base == 0 {
		return
	}
	var pk [67]byte
	pk[0], pk[1] = byte(hf), byte(h/2)
	ev.Try(func() { xmss.VerifyWithCustomWOTSParamW([]byte("foreign"), make([]byte, base+32*h), pk, w) })
}

var refCache = map[string]*xmssref.Key{}

func refKey(seed []byte, h int, hf xmss.HashFunction) *xmssref.Key {
	k := fmt.Sprintf("%x/%d/%d", seed, h, hf)
	if v, ok := refCache[k]; ok {
		return v
	}
	if len(refCache) > 64 {
		refCache = map[string]*xmssref.Key{}
	}
	v := xmssref.NewKey(seed, h, pu.RefHash(hf))
	refCache[k] = v
	return v
}

func runHist(r *ev.Recorder, c *histCase, _ any) (string, string) {
	hf := xmss.HashFunction(c.Hash)
	for _, w := range c.PreWs {
		foreignVerify(w, c.H, hf)
	}
	if c.PreW != 0 {
		foreignVerify(c.PreW, c.H, hf)
	}
	x := pu.NewXMSS(c.Seed, c.H, hf)
	ref := refKey(c.Seed, c.H, hf)
	if pk := x.GetPK(); !bytes.Equal(pk[:], pu.RefPK(ref, hf)) {
		return "pk/mismatch-after-history", fmt.Sprintf("hash=%s h=%d: public key differs from the reference (verifications with w=%v %d ran just before key generation)", pu.HashName(hf), c.H, c.PreWs, c.PreW)
	}
	cur := uint32(0)
	last := uint32(1)<<uint(c.H) - 1
	for n, op := range c.Ops {
		if cur > last {
			break
		}
		if op.W != 0 {
			foreignVerify(op.W, c.H, hf)
		}
		target := cur + op.Jump
		if target > last {
			target = last
		}
		if op.Jump > 0 {
			if o := ev.Try(func() { x.SetIndex(target) }); o.Panicked {
				return "setindex/panic", fmt.Sprintf("op %d: SetIndex(%d) from %d: %s", n, target, cur, o)
			}
			cur = target
		}
		var sig []byte
		var err error
		if o := ev.Try(func() { sig, err = x.Sign(op.Msg) }); o.Panicked || err != nil {
			return "sign/panic-or-error", fmt.Sprintf("op %d: Sign at %d: %s err=%v", n, cur, o, err)
		}
		want := ref.Sign(cur, op.Msg)
		r.Eval(1)
		if !bytes.Equal(sig, want) {
			return "signature/mismatch-after-history", fmt.Sprintf("hash=%s h=%d: after history %v the signature at index %d differs from the reference at byte %d",
				pu.HashName(hf), c.H, jumps(c.Ops[:n+1]), cur, firstDiff(sig, want))
		}
		if op.Jump > 0 {
			r.NonTrivial("hist", c.Hash, c.H, []byte(c.Seed), cur, jumps(c.Ops[:n+1]))
		}
		cur++
	}
	return "", ""
}

func jumps(ops []histOp) []uint32 {
	var j []uint32
	for _, o := range ops {
		j = append(j, o.Jump)
	}
	return j
}

// TestTallKey: heights whose leaf / node indices exceed one byte (h >= 10). Whole-life comparison at these
// heights is in the thorough tier; here the public key and the signatures at indices on both sides of every
// byte boundary of the index (255|256, 511|512, ...) are compared after forward jumps.
func TestTallKey(t *testing.T) {
	r := ev.New(t, prop, "TestTallKey")
	r.Rule("a key of height 10 and one of height 12 (quick: hash functions chosen by VERIF_SEED; thorough: h=10 all hashes and h=12 all hashes) from a rapid seed: public key compared with the reference, then signatures at 0, 1, 2^k-1, 2^k for every k < h, the last two indices and a few drawn ones, reached by SetIndex, compared byte-for-byte with xmssref.Sign; non-trivial = each compared signature at an index >= 256, distinct by (hash,h,seed,index)")
	type th struct {
		hf xmss.HashFunction
		h  int
	}
	var list []th
	if r.Thorough() {
		for _, hf := range pu.Hashes {
			list = append(list, th{hf, 10}, th{hf, 12})
		}
	} else {
		// one key of height 10 and one of height 12 (the treehash budget (h-2)/2 and the index byte count change
		// with the height), different hash functions
		list = []th{{pu.Hashes[int(r.Seed()%3)], 10}, {pu.Hashes[int((r.Seed()+1)%3)], 12}}
	}
	for li, e := range list {
		if !r.Mine(li) {
			continue
		}
		e := e
		r.Rapid(t, fmt.Sprintf("tall-%d", li), 1, func(rt *rapid.T) {
			c := &histCase{Hash: uint(e.hf), H: e.h, Seed: pu.Seed48().Draw(rt, "seed")}
			idxs := []uint32{0, 1}
			for k := 1; k < e.h; k++ {
				idxs = append(idxs, 1<<uint(k)-1, 1<<uint(k))
			}
			idxs = append(idxs, 300, 1<<uint(e.h)-2, 1<<uint(e.h)-1)
			for i := 0; i < 6; i++ {
				idxs = append(idxs, uint32(rapid.IntRange(256, 1<<uint(e.h)-1).Draw(rt, "idx")))
			}
			// sort + dedupe, then turn into jumps
			for a := 1; a < len(idxs); a++ {
				for b := a; b > 0 && idxs[b] < idxs[b-1]; b-- {
					idxs[b], idxs[b-1] = idxs[b-1], idxs[b]
				}
			}
			cur := uint32(0)
			for _, ix := range idxs {
				if ix < cur {
					continue
				}
				c.Ops = append(c.Ops, histOp{Jump: ix - cur, Msg: pu.Msg(100).Draw(rt, "msg")})
				cur = ix + 1
			}
			x := pu.NewXMSS(c.Seed, c.H, e.hf)
			ref := refKey(c.Seed, c.H, e.hf)
			pk := x.GetPK()
			r.Eval(1)
			r.Check(rt, bytes.Equal(pk[:], pu.RefPK(ref, e.hf)), "pk/mismatch", c, "hash=%s h=%d: public key differs from the reference", pu.HashName(e.hf), e.h)
			key, msg := runHist(r, c, nil)
			r.Count(fmt.Sprintf("tall_%s_h%d", pu.HashName(e.hf), e.h), 1)
			r.Sample(map[string]any{"hash": pu.HashName(e.hf), "h": e.h, "indices": idxs})
			r.Check(rt, key == "", key, c, "%s", msg)
		})
	}
}

func TestHistoryIndependence(t *testing.T) {
	r := ev.New(t, prop, "TestHistoryIndependence")
	r.Rule("rapid histories on a fresh library key (3 hashes, h in {4,6}; seeds from a small per-run pool so reference trees are reused): each step optionally jumps forward with SetIndex then signs; verifications with another Winternitz parameter (w=4/256, same height, garbage signature) are interleaved before key generation and between steps; every signature must equal xmssref.Sign(index,msg); non-trivial = a signature produced right after a forward jump, distinct by (hash,h,seed,index,jump history)")
	// seed pool: derived from the run seed; index 0 is the all-zero seed
	pool := [][]byte{make([]byte, 48), pu.DetBytes(r.SubSeed("pool-1"), 48), pu.DetBytes(r.SubSeed("pool-2"), 48)}
	checks := r.PerShard(r.Pick(160, 2400))
	r.Rapid(t, "hist", checks, func(rt *rapid.T) {
		c := &histCase{
			Hash: uint(rapid.SampledFrom(pu.Hashes).Draw(rt, "hash")),
			H:    rapid.SampledFrom([]int{4, 4, 6}).Draw(rt, "h"),
			Seed: rapid.SampledFrom(pool).Draw(rt, "seed"),
		}
		if rapid.IntRange(0, 2).Draw(rt, "preW") == 0 {
			c.PreW = rapid.SampledFrom([]uint32{4, 256, 16}).Draw(rt, "preWv")
		} else if rapid.IntRange(0, 1).Draw(rt, "preWs") == 0 {
			c.PreWs = rapid.SliceOfN(rapid.SampledFrom([]uint32{4, 17, 256, 5, 300, 16, 17}), 2, 3).Draw(rt, "preWsv")
			r.Count("key_generations_after_several_foreign_w_verifications", 1)
		}
		nops := rapid.IntRange(1, 8).Draw(rt, "nops")
		for i := 0; i < nops; i++ {
			var j uint32
			switch rapid.IntRange(0, 5).Draw(rt, "jumpKind") {
			case 0, 1:
				j = 0
			case 2:
				j = uint32(rapid.IntRange(1, 3).Draw(rt, "jump"))
			case 3:
				k := rapid.IntRange(1, c.H-1).Draw(rt, "k")
				j = uint32(1<<uint(k)) + uint32(rapid.IntRange(-1, 1).Draw(rt, "d"))
			default:
				j = uint32(rapid.IntRange(1, 1<<uint(c.H)).Draw(rt, "jump"))
			}
			o := histOp{Jump: j, Msg: pu.Msg(200).Draw(rt, "msg")}
			if rapid.IntRange(0, 5).Draw(rt, "foreign") == 0 {
				o.W = rapid.SampledFrom([]uint32{4, 256, 17, 5, 300}).Draw(rt, "w")
				r.Count("steps_preceded_by_foreign_w_verification", 1)
			}
			c.Ops = append(c.Ops, o)
		}
		key, msg := runHist(r, c, nil)
		r.Sample(map[string]any{"hash": c.Hash, "h": c.H, "jumps": jumps(c.Ops), "foreign_w_before_keygen": c.PreW, "foreign_ws_before_keygen": c.PreWs})
		r.Check(rt, key == "", key, c, "%s", msg)
	})
}
