// C01 — XMSS: every signature over the key's whole life verifies.
// Engines in this file use real hashing and the public API only (no hooks).
package c01

import (
	"encoding/binary"
	"encoding/json"
	"fmt"
	"testing"

	"github.com/theQRL/go-qrllib/xmss"
	"pgregory.net/rapid"
	"verifharness/ev"
	"verifharness/pu"
)

const prop = "C01"

func TestMain(m *testing.M) {
	ev.Main(m, prop, []ev.Job{
		{Test: "TestRealLife", Quick: 10, Thorough: 16},
		{Test: "TestRealHistories", Quick: 6, Thorough: 12},
		{Test: "TestSeamLife", Quick: 13, Thorough: 22},
		{Test: "TestSeamJumps", Quick: 12, Thorough: 16},
		{Test: "TestSeamHistories", Quick: 6, Thorough: 12},
		{Test: "TestTallShapes", Quick: 2, Thorough: 4},
	})
}

func TestReplay(t *testing.T)  { ev.StdReplay(t, prop) }
func TestRegress(t *testing.T) { ev.StdRegress(t, prop) }

// checkSig is the oracle for one returned signature: no error, exact length, index field, and
// acceptance by the library verifier AND by the independent reference verifier.
func checkSig(r *ev.Recorder, pk []byte, h int, wantIdx uint32, msg, sig []byte, err error, o ev.Outcome) (string, string) {
	r.Eval(1)
	if o.Panicked {
		return "sign/panic", fmt.Sprintf("Sign at index %d: %s", wantIdx, o)
	}
	if err != nil {
		return "sign/error", fmt.Sprintf("Sign at index %d: %v", wantIdx, err)
	}
	if len(sig) != 2180+32*h {
		return "sign/length", fmt.Sprintf("index %d: signature length %d, want %d", wantIdx, len(sig), 2180+32*h)
	}
	if got := binary.BigEndian.Uint32(sig); got != wantIdx {
		return "sign/index-field", fmt.Sprintf("signature carries index %d, key was at %d", got, wantIdx)
	}
	lib, out := pu.LibXMSSVerify(msg, sig, pk)
	if !lib {
		return "verify/lib-rejects", fmt.Sprintf("index %d: xmss.Verify does not accept the key's own signature (%s)", wantIdx, out)
	}
	if !pu.SpecXMSSVerify(msg, sig, pk) {
		return "verify/spec-rejects", fmt.Sprintf("index %d: the reference verifier rejects the key's own signature", wantIdx)
	}
	return "", ""
}

// afterExhaustion asks a key object whose every leaf has been used for more: it may refuse (an error or one of the
// library's explicit messages) as often as it likes, but whatever it RETURNS as a signature must verify - and none can,
// there is no leaf left - so a returned signature is a violation of "every signature a key returns verifies".
func afterExhaustion(r *ev.Recorder, x *xmss.XMSS, pk []byte, tag string) (string, string) {
	for k := 0; k < 3; k++ {
		msg := []byte{byte(k), 0xee}
		var sig []byte
		var err error
		o := ev.Try(func() { sig, err = x.Sign(msg) })
		r.Eval(1)
		r.Count("sign_attempts_on_exhausted_key", 1)
		if o.Panicked && !o.IsString {
			return "exhausted/runtime-fault", fmt.Sprintf("%s: Sign #%d on the exhausted key: %s", tag, k+1, o)
		}
		if o.Panicked || err != nil {
			continue
		}
		if lib, _ := pu.LibXMSSVerify(msg, sig, pk); !lib || !pu.SpecXMSSVerify(msg, sig, pk) {
			idx := uint32(0)
			if len(sig) >= 4 {
				idx = binary.BigEndian.Uint32(sig)
			}
			return "exhausted/returns-unverifiable-signature", fmt.Sprintf("%s: Sign #%d on the exhausted key returned a %d-byte signature (index field %d) without error; it does not verify", tag, k+1, len(sig), idx)
		}
	}
	return "", ""
}

// ---- (R) whole life with real hashing ----

type lifeCase struct {
	Hash    uint   `json:"hash"`
	H       int    `json:"h"`
	Seed    pu.HB  `json:"seed"`
	MsgSeed uint64 `json:"msg_seed"`
	FailIdx int    `json:"fail_idx,omitempty"`
}

func lifeMsg(ms uint64, i int) []byte {
	return pu.DetBytes(ms*1000003+uint64(i)+1, pu.LifeMsgLen(ms, i))
}

func runLife(r *ev.Recorder, c *lifeCase) (string, string) {
	hf := xmss.HashFunction(c.Hash)
	var x *xmss.XMSS
	if o := ev.Try(func() { x = pu.NewXMSS(c.Seed, c.H, hf) }); o.Panicked {
		return "keygen/panic", o.String()
	}
	pk := x.GetPK()
	for i := 0; i < 1<<uint(c.H); i++ {
		msg := lifeMsg(c.MsgSeed, i)
		var sig []byte
		var err error
		o := ev.Try(func() { sig, err = x.Sign(msg) })
		if k, m := checkSig(r, pk[:], c.H, uint32(i), msg, sig, err, o); k != "" {
			c.FailIdx = i
			return k, fmt.Sprintf("hash=%s h=%d: %s", pu.HashName(hf), c.H, m)
		}
		if i > 0 {
			r.NonTrivial("real", c.Hash, c.H, []byte(c.Seed), i)
		}
	}
	if k, m := afterExhaustion(r, x, pk[:], fmt.Sprintf("hash=%s h=%d, all %d leaves used by signing", pu.HashName(hf), c.H, 1<<uint(c.H))); k != "" {
		c.FailIdx = 1 << uint(c.H)
		return k, m
	}
	return "", ""
}

type combo struct {
	hf   xmss.HashFunction
	h    int
	reps int
}

func realCombos(r *ev.Recorder) []combo {
	var cs []combo
	one := pu.Hashes[int(r.Seed()%3)]
	if r.Thorough() {
		for _, h := range []int{12, 10, 8, 6, 4} {
			for _, hf := range pu.Hashes {
				cs = append(cs, combo{hf, h, map[int]int{4: 8, 6: 4, 8: 2, 10: 1, 12: 1}[h]})
			}
		}
		return append([]combo{{one, 14, 1}}, cs...)
	}
	cs = append(cs, combo{one, 10, 1})
	for _, h := range []int{8, 6, 4} {
		for _, hf := range pu.Hashes {
			cs = append(cs, combo{hf, h, map[int]int{4: 4, 6: 2, 8: 1}[h]})
		}
	}
	return cs
}

func TestRealLife(t *testing.T) {
	xmssRealMode()
	r := ev.New(t, prop, "TestRealLife")
	r.Rule("real hashing: rapid-drawn seeds x 3 hash functions x heights {4,6,8; 10 for one hash chosen by VERIF_SEED} (thorough: 4..12 all hashes, 14 for one); the key signs EVERY index 0..2^h-1 in order; each signature must have no error, the exact length, the expected index field and be accepted by xmss.Verify AND by the independent reference verifier; non-trivial = index > 0 (authentication path produced by traversal, not by key generation), distinct by (hash,h,seed,index)")
	for ci, cb := range realCombos(r) {
		if !r.Mine(ci) {
			continue
		}
		cb := cb
		r.Rapid(t, fmt.Sprintf("life-%d", ci), cb.reps, func(rt *rapid.T) {
			c := &lifeCase{Hash: uint(cb.hf), H: cb.h, Seed: pu.Seed48().Draw(rt, "seed"), MsgSeed: rapid.Uint64().Draw(rt, "msgSeed")}
			key, msg := runLife(r, c)
			r.Count(fmt.Sprintf("keys_%s_h%02d", pu.HashName(cb.hf), cb.h), 1)
			r.Sample(map[string]any{"hash": pu.HashName(cb.hf), "h": cb.h, "seed": pu.Short(c.Seed), "indices_signed_and_verified": 1 << uint(cb.h)})
			r.Check(rt, key == "", key, c, "%s", msg)
		})
	}
}

// ---- (H) histories with real hashing ----

type op struct {
	// Kind: "sign" or "set" (SetIndex(cur+Delta), clamped to the last index)
	Kind  string `json:"kind"`
	Delta uint32 `json:"delta,omitempty"`
	Msg   pu.HB  `json:"msg,omitempty"`
}

type histCase struct {
	Hash uint  `json:"hash"`
	H    int   `json:"h"`
	Seed pu.HB `json:"seed"`
	Ops  []op  `json:"ops"`
}

func drawOps(rt *rapid.T, h, maxOps int, maxJump uint32) []op {
	n := rapid.IntRange(1, maxOps).Draw(rt, "nops")
	var ops []op
	for i := 0; i < n; i++ {
		if rapid.IntRange(0, 2).Draw(rt, "kind") > 0 {
			ops = append(ops, op{Kind: "sign", Msg: pu.Msg(150).Draw(rt, "msg")})
			continue
		}
		var d uint32
		switch rapid.IntRange(0, 5).Draw(rt, "deltaKind") {
		case 0:
			d = 0
		case 1:
			d = uint32(rapid.IntRange(1, 3).Draw(rt, "d"))
		case 2, 3:
			k := rapid.IntRange(1, h-1).Draw(rt, "k")
			d = uint32(1<<uint(k)) + uint32(rapid.IntRange(-1, 1).Draw(rt, "pm"))
		case 4:
			d = 1 << 30 // "to the last index" (clamped)
		default:
			d = uint32(rapid.Uint64Range(1, uint64(maxJump)).Draw(rt, "d"))
		}
		if d > maxJump && d != 1<<30 {
			d = maxJump
		}
		ops = append(ops, op{Kind: "set", Delta: d})
	}
	return ops
}

func opsBrief(ops []op) string {
	s := ""
	for _, o := range ops {
		if o.Kind == "sign" {
			s += "S "
		} else {
			s += fmt.Sprintf("+%d ", o.Delta)
		}
	}
	return s
}

func runHist(r *ev.Recorder, c *histCase) (string, string) {
	hf := xmss.HashFunction(c.Hash)
	x := pu.NewXMSS(c.Seed, c.H, hf)
	pk := x.GetPK()
	last := uint32(1)<<uint(c.H) - 1
	cur := uint32(0)
	jumped := false
	for n, o := range c.Ops {
		if cur > last {
			break
		}
		if o.Kind == "set" {
			target := last
			if uint64(cur)+uint64(o.Delta) < uint64(last) {
				target = cur + o.Delta
			}
			if out := ev.Try(func() { x.SetIndex(target) }); out.Panicked {
				return "setindex/panic", fmt.Sprintf("op %d: SetIndex(%d) from %d: %s", n, target, cur, out)
			}
			if target > cur {
				jumped = true
			}
			cur = target
			continue
		}
		var sig []byte
		var err error
		out := ev.Try(func() { sig, err = x.Sign(o.Msg) })
		if k, m := checkSig(r, pk[:], c.H, cur, o.Msg, sig, err, out); k != "" {
			return k, fmt.Sprintf("hash=%s h=%d after history [%s]: %s", pu.HashName(hf), c.H, opsBrief(c.Ops[:n+1]), m)
		}
		if jumped {
			r.NonTrivial("hist", c.Hash, c.H, cur, opsBrief(c.Ops[:n+1]))
		}
		cur++
	}
	if cur > last {
		if k, m := afterExhaustion(r, x, pk[:], fmt.Sprintf("hash=%s h=%d after history [%s]", pu.HashName(hf), c.H, opsBrief(c.Ops))); k != "" {
			return k, m
		}
		r.Count("histories_ending_in_exhaustion", 1)
	}
	return "", ""
}

func TestRealHistories(t *testing.T) {
	xmssRealMode()
	r := ev.New(t, prop, "TestRealHistories")
	r.Rule("real hashing: rapid histories of Sign(m) / SetIndex(cur+d) on a fresh key (3 hashes, h in {4,6,8}), d from {0,1..3, 2^k-1,2^k,2^k+1, 'to the last index', uniform}; every signature returned after any history must verify (library + reference verifier), including whatever an exhausted key hands out when asked again (it may only refuse); non-trivial = a signature produced after at least one forward jump, distinct by (hash,h,index,history)")
	checks := r.PerShard(r.Pick(240, 6000))
	r.Rapid(t, "hist", checks, func(rt *rapid.T) {
		c := &histCase{Hash: uint(rapid.SampledFrom(pu.Hashes).Draw(rt, "hash")), H: rapid.SampledFrom([]int{4, 4, 6, 6, 8}).Draw(rt, "h"), Seed: pu.Seed48().Draw(rt, "seed")}
		c.Ops = drawOps(rt, c.H, 10, uint32(1)<<uint(c.H))
		key, msg := runHist(r, c)
		r.Count(fmt.Sprintf("h%d", c.H), 1)
		r.Sample(map[string]any{"hash": c.Hash, "h": c.H, "history": opsBrief(c.Ops)})
		r.Check(rt, key == "", key, c, "%s", msg)
	})
}

func init() {
	ev.Register("TestRealLife", func(t *testing.T, r *ev.Recorder, raw json.RawMessage) {
		xmssRealMode()
		var c lifeCase
		if err := json.Unmarshal(raw, &c); err != nil {
			t.Fatalf("HARNESS-HEALTH: %v", err)
		}
		key, msg := runLife(r, &c)
		r.Check(t, key == "", key, &c, "%s", msg)
	})
	ev.Register("TestRealHistories", func(t *testing.T, r *ev.Recorder, raw json.RawMessage) {
		xmssRealMode()
		var c histCase
		if err := json.Unmarshal(raw, &c); err != nil {
			t.Fatalf("HARNESS-HEALTH: %v", err)
		}
		key, msg := runHist(r, &c)
		r.Check(t, key == "", key, &c, "%s", msg)
	})
}
