//go:build !verif

package c01

func xmssRealMode() {}
