// C01, heights no key object can be walked through in a test run (and every other supported height as a control):
// a signature of exactly the shape a key of that height returns - WOTS chains of the leaf at the index, an
// authentication path of h nodes, the root those hash to as the public key's root - must be accepted. No tree of
// 2^30 leaves is built: the siblings are drawn, the root is computed from them by the reference implementation, so
// the triple satisfies the scheme's verification equation by construction (the construction C04 uses for its
// "accepts what is valid" direction; here it stands in for the genuine signatures of keys with 2^24..2^30 leaves).
package c01

import (
	"encoding/json"
	"fmt"
	"testing"

	"pgregory.net/rapid"
	"verifharness/ev"
	"verifharness/pu"
	"verifharness/ref/xmssref"
)

type tallCase struct {
	Hash     uint   `json:"hash"`
	H        int    `json:"h"`
	Idx      uint32 `json:"index"`
	Material uint64 `json:"material_seed"`
	Msg      pu.HB  `json:"msg"`
}

func runTall(r *ev.Recorder, c *tallCase) (string, string) {
	xmssRealMode()
	hf := pu.Hashes[c.Hash%uint(len(pu.Hashes))]
	mat := pu.DetBytes(c.Material, 96+32*c.H)
	sibs := make([][]byte, c.H)
	for l := range sibs {
		sibs[l] = mat[96+32*l : 128+32*l]
	}
	sig, root := xmssref.Fabricate(pu.RefHash(hf), c.H, c.Idx, c.Msg, mat[0:32], mat[32:64], mat[64:96], sibs, -1)
	pk := append([]byte{byte(hf), byte(c.H / 2), 0}, root...)
	pk = append(pk, mat[32:64]...)
	r.Eval(1)
	if !pu.SpecXMSSVerify(c.Msg, sig, pk) {
		return "HARNESS", "the constructed triple does not satisfy the reference verifier"
	}
	if ok, out := pu.LibXMSSVerify(c.Msg, sig, pk); !ok {
		return "tall/lib-rejects", fmt.Sprintf("hash=%s h=%d index %d: xmss.Verify does not accept a signature of the shape a key of this height returns (%s)", pu.HashName(hf), c.H, c.Idx, out)
	}
	return "", ""
}

func TestTallShapes(t *testing.T) {
	r := ev.New(t, prop, "TestTallShapes")
	r.Rule("signatures of the shape keys of EVERY supported height 4..30 return (half of the cases at heights 24..30, which no test run can walk): leaf WOTS chains at index {0, last, 2^k, 2^k-1, uniform}, drawn authentication siblings, root computed by the reference implementation; oracle: xmss.Verify accepts (the reference verifier accepts by construction, checked); non-trivial = every case, distinct by (hash, h, index, message)")
	checks := r.PerShard(r.Pick(1200, 40000))
	r.Rapid(t, "tall", checks, func(rt *rapid.T) {
		c := &tallCase{Hash: uint(rapid.IntRange(0, len(pu.Hashes)-1).Draw(rt, "hash")), Material: rapid.Uint64().Draw(rt, "material"), Msg: pu.Msg(120).Draw(rt, "msg")}
		if rapid.Bool().Draw(rt, "tall") {
			c.H = 2 * rapid.IntRange(12, 15).Draw(rt, "h/2")
		} else {
			c.H = 2 * rapid.IntRange(2, 15).Draw(rt, "h/2")
		}
		last := uint32(1)<<uint(c.H) - 1
		switch rapid.IntRange(0, 3).Draw(rt, "idxKind") {
		case 0:
			c.Idx = 0
		case 1:
			c.Idx = last
		case 2:
			c.Idx = uint32(1)<<uint(rapid.IntRange(0, c.H-1).Draw(rt, "bit")) - uint32(rapid.IntRange(0, 1).Draw(rt, "minus"))
		default:
			c.Idx = uint32(rapid.Uint64Range(0, uint64(last)).Draw(rt, "idx"))
		}
		key, msg := runTall(r, c)
		if key == "HARNESS" {
			rt.Fatalf("HARNESS-HEALTH: %s", msg)
		}
		r.NonTrivial(c.Hash, c.H, c.Idx, []byte(c.Msg))
		r.Count(fmt.Sprintf("height_%02d", c.H), 1)
		if c.Idx >= 1<<24 {
			r.Count("index>=2^24", 1)
		}
		r.Sample(map[string]any{"hash": c.Hash, "h": c.H, "index": c.Idx})
		r.Check(rt, key == "", key, c, "%s", msg)
	})
}

func init() {
	ev.Register("TestTallShapes", func(t *testing.T, r *ev.Recorder, raw json.RawMessage) {
		var c tallCase
		if err := json.Unmarshal(raw, &c); err != nil {
			t.Fatalf("HARNESS-HEALTH: %v", err)
		}
		key, msg := runTall(r, &c)
		r.Check(t, key == "", key, &c, "%s", msg)
	})
}
