//go:build verif

// C01 engines that use the cheap-leaf seam: the library's treeHashSetup / bdsRound /
// bdsTreeHashUpdate / treeHashUpdate / fast-forward loop run unmodified, leaves cost one SHA-256.
// Oracle: the authentication path held by the key (and carried by signatures) equals the sibling
// nodes of the full reference tree over the same leaves.
package c01

import (
	"bytes"
	"encoding/binary"
	"encoding/json"
	"fmt"
	"testing"

	"github.com/theQRL/go-qrllib/xmss"
	"pgregory.net/rapid"
	"verifharness/ev"
	"verifharness/pu"
	"verifharness/seam"
)

func xmssRealMode() { seam.Off() }

var seamSeed = bytes.Repeat([]byte{0x5a}, 48)

type seamLifeCase struct {
	Hash    uint `json:"hash"`
	H       int  `json:"h"`
	FailIdx int  `json:"fail_idx"`
}

// signHere decides (deterministically) whether the step from index i is made by Sign rather than SetIndex.
func signHere(i uint32, h int, salt uint64) bool {
	if i < 4 || i+4 >= 1<<uint(h) {
		return true
	}
	if x := i + 2; x&(x-1) == 0 || (i+1)&i == 0 || i&(i-1) == 0 { // 2^k-2, 2^k-1, 2^k
		return true
	}
	z := (uint64(i) + salt) * 0x9e3779b97f4a7c15
	return (z>>40)%1024 == 0
}

func runSeamLife(r *ev.Recorder, c *seamLifeCase, salt uint64, upTo int) (string, string) {
	seam.On()
	defer seam.Off()
	hf := xmss.HashFunction(c.Hash)
	x := pu.NewXMSS(seamSeed, c.H, hf)
	tree := seam.Cached(hf, c.H, x.GetPKSeed())
	tag := fmt.Sprintf("seam hash=%s h=%d", pu.HashName(hf), c.H)
	if !bytes.Equal(tree.Root(), x.GetRoot()) {
		return "seam/root", tag + ": root after key generation differs from the reference tree's root"
	}
	last := uint32(1)<<uint(c.H) - 1
	signs := 0
	for i := uint32(0); ; i++ {
		r.Eval(1)
		if ok, lvl := tree.AuthEqual(i, x.VerifAuthPath()); !ok {
			c.FailIdx = int(i)
			return "seam/auth-path", fmt.Sprintf("%s: at index %d the authentication path held by the key is wrong at level %d", tag, i, lvl)
		}
		if i > 0 {
			r.NonTrivialEnum(1)
		}
		if i == last || (upTo >= 0 && int(i) >= upTo) {
			// the last leaf: sign it as well
			sig, err := x.Sign([]byte{1})
			if err != nil || !bytes.Equal(sig[2180:], tree.Auth(i)) || binary.BigEndian.Uint32(sig) != i {
				c.FailIdx = int(i)
				return "seam/sign-auth", fmt.Sprintf("%s: signature at index %d carries a wrong index or authentication path (err=%v)", tag, i, err)
			}
			break
		}
		if signHere(i, c.H, salt) {
			var sig []byte
			var err error
			if o := ev.Try(func() { sig, err = x.Sign([]byte{byte(i)}) }); o.Panicked || err != nil {
				c.FailIdx = int(i)
				return "seam/sign-panic", fmt.Sprintf("%s: Sign at index %d: %s err=%v", tag, i, o, err)
			}
			signs++
			if binary.BigEndian.Uint32(sig) != i || !bytes.Equal(sig[2180:], tree.Auth(i)) {
				c.FailIdx = int(i)
				return "seam/sign-auth", fmt.Sprintf("%s: signature at index %d carries a wrong index or authentication path", tag, i)
			}
		} else if o := ev.Try(func() { x.SetIndex(i + 1) }); o.Panicked {
			c.FailIdx = int(i)
			return "seam/setindex-panic", fmt.Sprintf("%s: SetIndex(%d): %s", tag, i+1, o)
		}
	}
	r.Count(fmt.Sprintf("steps_by_Sign_h%02d", c.H), signs)
	return "", ""
}

func seamLifeCombos(r *ev.Recorder) (cs []combo) {
	one := pu.Hashes[int(r.Seed()%3)]
	if r.Thorough() {
		cs = append(cs, combo{xmss.SHA2_256, 24, 1})
		for _, hf := range pu.Hashes {
			cs = append(cs, combo{hf, 22, 1})
		}
		for _, h := range []int{20, 18, 16, 14, 12, 10} {
			for _, hf := range pu.Hashes {
				cs = append(cs, combo{hf, h, 1})
			}
		}
		return
	}
	cs = append(cs, combo{one, 18, 1})
	for _, h := range []int{16, 14, 12, 10} {
		for _, hf := range pu.Hashes {
			cs = append(cs, combo{hf, h, 1})
		}
	}
	return
}

func TestSeamLife(t *testing.T) {
	r := ev.New(t, prop, "TestSeamLife")
	r.Rule("cheap-leaf seam: for 3 hash functions x heights {10,12,14,16; 18 for one hash} (thorough: ..22 all hashes, 24 for SHA2_256) the key walks its WHOLE life index by index (SetIndex(i+1), or a real Sign at ~0.1% of indices plus all indices next to powers of two and both ends); after every step the authentication path held by the key, and the one carried by each signature, must equal the sibling nodes of the full reference tree; non-trivial = every index > 0, distinct by enumeration (hash,h,index)")
	r.Assume("tree-traversal control flow depends only on (h, index history), never on hash values (stated in the property's quantifier): the seam replaces only the leaf computation")
	for ci, cb := range seamLifeCombos(r) {
		if !r.Mine(ci) {
			continue
		}
		c := &seamLifeCase{Hash: uint(cb.hf), H: cb.h}
		key, msg := runSeamLife(r, c, r.Seed(), -1)
		r.Count(fmt.Sprintf("whole_life_%s_h%02d", pu.HashName(cb.hf), cb.h), 1)
		r.Sample(map[string]any{"hash": pu.HashName(cb.hf), "h": cb.h, "indices_checked": 1 << uint(cb.h)})
		r.Exhaustive(fmt.Sprintf("every index of h=%d (%s), cheap leaves", cb.h, pu.HashName(cb.hf)))
		r.Check(t, key == "", key, c, "%s", msg)
	}
}

// ---- all single jumps i -> j ----

type jumpCase struct {
	Hash uint   `json:"hash"`
	H    int    `json:"h"`
	I    uint32 `json:"i"`
	J    uint32 `json:"j"`
}

// stepped walks a key through its life by single steps and returns clones of every state.
func stepped(hf xmss.HashFunction, h int) ([]*xmss.XMSS, *seam.Tree) {
	x := pu.NewXMSS(seamSeed, h, hf)
	tree := seam.Cached(hf, h, x.GetPKSeed())
	n := 1 << uint(h)
	states := make([]*xmss.XMSS, n)
	for i := 0; i < n; i++ {
		states[i] = x.VerifClone()
		if i+1 < n {
			x.SetIndex(uint32(i + 1))
		}
	}
	return states, tree
}

func runJump(r *ev.Recorder, c *jumpCase, states []*xmss.XMSS, tree *seam.Tree) (string, string) {
	hf := xmss.HashFunction(c.Hash)
	k := states[c.I].VerifClone()
	if o := ev.Try(func() { k.SetIndex(c.J) }); o.Panicked {
		return "jump/panic", fmt.Sprintf("h=%d SetIndex(%d) from %d: %s", c.H, c.J, c.I, o)
	}
	r.Eval(1)
	tag := fmt.Sprintf("seam hash=%s h=%d jump %d->%d", pu.HashName(hf), c.H, c.I, c.J)
	if ok, lvl := tree.AuthEqual(c.J, k.VerifAuthPath()); !ok {
		return "jump/auth-path", fmt.Sprintf("%s: authentication path wrong at level %d right after the jump", tag, lvl)
	}
	if bytes.Equal(k.VerifSnapshot(), states[c.J].VerifSnapshot()) {
		return "", "" // same state as the stepped key, whose whole future is checked by the walk
	}
	// states differ: walk the jumped key to the end of its life; only a wrong path is a violation
	r.Count("snapshot_differs_after_jump", 1)
	last := uint32(1)<<uint(c.H) - 1
	for i := c.J; i < last; i++ {
		k.SetIndex(i + 1)
		if ok, lvl := tree.AuthEqual(i+1, k.VerifAuthPath()); !ok {
			return "jump/auth-path-later", fmt.Sprintf("%s: authentication path wrong at level %d once the key reaches index %d", tag, lvl, i+1)
		}
	}
	return "", ""
}

func TestSeamJumps(t *testing.T) {
	r := ev.New(t, prop, "TestSeamJumps")
	r.Rule("cheap-leaf seam: ALL single forward jumps i->j (0<=i<j<2^h) at h in {4,6,8} for all three hash functions (thorough: + h=10 for one hash): the state at i is the stepped one, SetIndex(j) must give the reference authentication path at j and a state identical to the stepped state at j (if it is not identical the jumped key is walked to the end of its life and only a wrong path counts); non-trivial = every pair, distinct by enumeration (hash,h,i,j)")
	seam.On()
	defer seam.Off()
	type hj struct {
		hf xmss.HashFunction
		h  int
	}
	var list []hj
	for _, hf := range pu.Hashes {
		for _, h := range []int{4, 6, 8} {
			list = append(list, hj{hf, h})
		}
	}
	if r.Thorough() {
		list = append(list, hj{pu.Hashes[int(r.Seed()%3)], 10})
	}
	for _, e := range list {
		states, tree := stepped(e.hf, e.h)
		n := uint32(1) << uint(e.h)
		pairs := 0
		for i := uint32(0); i < n; i++ {
			if !r.Mine(int(i)) {
				continue
			}
			for j := i + 1; j < n; j++ {
				c := &jumpCase{Hash: uint(e.hf), H: e.h, I: i, J: j}
				key, msg := runJump(r, c, states, tree)
				pairs++
				r.Check(t, key == "", key, c, "%s", msg)
			}
		}
		r.NonTrivialEnum(pairs)
		r.Count(fmt.Sprintf("pairs_%s_h%02d", pu.HashName(e.hf), e.h), pairs)
		r.Exhaustive(fmt.Sprintf("all single jumps i->j at h=%d (%s)", e.h, pu.HashName(e.hf)))
	}
	r.Sample(map[string]any{"example": "h=8: clone of stepped state at i=37, SetIndex(200), auth path == reference siblings of leaf 200, snapshot == stepped state at 200"})
}

// ---- rapid histories at big heights ----

type seamHistCase struct {
	Hash uint `json:"hash"`
	H    int  `json:"h"`
	Ops  []op `json:"ops"`
}

func runSeamHist(r *ev.Recorder, c *seamHistCase) (string, string) {
	seam.On()
	defer seam.Off()
	hf := xmss.HashFunction(c.Hash)
	x := pu.NewXMSS(seamSeed, c.H, hf)
	tree := seam.Cached(hf, c.H, x.GetPKSeed())
	last := uint32(1)<<uint(c.H) - 1
	cur := uint32(0)
	for n, o := range c.Ops {
		if cur > last {
			break
		}
		tag := fmt.Sprintf("seam hash=%s h=%d after history [%s]", pu.HashName(hf), c.H, opsBrief(c.Ops[:n+1]))
		if o.Kind == "set" {
			target := last
			if uint64(cur)+uint64(o.Delta) < uint64(last) {
				target = cur + o.Delta
			}
			if out := ev.Try(func() { x.SetIndex(target) }); out.Panicked {
				return "seamhist/setindex-panic", fmt.Sprintf("%s: SetIndex(%d): %s", tag, target, out)
			}
			cur = target
		} else {
			var sig []byte
			var err error
			if out := ev.Try(func() { sig, err = x.Sign(o.Msg) }); out.Panicked || err != nil {
				return "seamhist/sign-panic", fmt.Sprintf("%s: Sign at %d: %s err=%v", tag, cur, out, err)
			}
			if binary.BigEndian.Uint32(sig) != cur || !bytes.Equal(sig[2180:], tree.Auth(cur)) {
				return "seamhist/sign-auth", fmt.Sprintf("%s: signature at index %d carries a wrong index or authentication path", tag, cur)
			}
			cur++
		}
		r.Eval(1)
		if cur <= last {
			if ok, lvl := tree.AuthEqual(cur, x.VerifAuthPath()); !ok {
				return "seamhist/auth-path", fmt.Sprintf("%s: authentication path at index %d wrong at level %d", tag, cur, lvl)
			}
			r.NonTrivial("seamhist", c.Hash, c.H, cur, opsBrief(c.Ops[:n+1]))
		}
	}
	return "", ""
}

func TestSeamHistories(t *testing.T) {
	r := ev.New(t, prop, "TestSeamHistories")
	r.Rule("cheap-leaf seam: rapid histories of Sign / SetIndex(cur+d) at h in {10,12,14,16} (3 hashes); after every operation the key's authentication path (and each signature's) must equal the reference tree's; non-trivial = each state reached, distinct by (hash,h,index,history)")
	checks := r.PerShard(r.Pick(360, 9000))
	r.Rapid(t, "seamhist", checks, func(rt *rapid.T) {
		c := &seamHistCase{Hash: uint(rapid.SampledFrom(pu.Hashes).Draw(rt, "hash")), H: rapid.SampledFrom([]int{10, 10, 12, 12, 14, 16}).Draw(rt, "h")}
		c.Ops = drawOps(rt, c.H, 12, uint32(1)<<uint(c.H-2))
		key, msg := runSeamHist(r, c)
		r.Count(fmt.Sprintf("h%d", c.H), 1)
		r.Sample(map[string]any{"hash": c.Hash, "h": c.H, "history": opsBrief(c.Ops)})
		r.Check(rt, key == "", key, c, "%s", msg)
	})
}

func init() {
	ev.Register("TestSeamLife", func(t *testing.T, r *ev.Recorder, raw json.RawMessage) {
		var c seamLifeCase
		if err := json.Unmarshal(raw, &c); err != nil {
			t.Fatalf("HARNESS-HEALTH: %v", err)
		}
		key, msg := runSeamLife(r, &c, 0, c.FailIdx)
		r.Check(t, key == "", key, &c, "%s", msg)
	})
	ev.Register("TestSeamJumps", func(t *testing.T, r *ev.Recorder, raw json.RawMessage) {
		var c jumpCase
		if err := json.Unmarshal(raw, &c); err != nil {
			t.Fatalf("HARNESS-HEALTH: %v", err)
		}
		seam.On()
		defer seam.Off()
		states, tree := stepped(xmss.HashFunction(c.Hash), c.H)
		key, msg := runJump(r, &c, states, tree)
		r.Check(t, key == "", key, &c, "%s", msg)
	})
	ev.Register("TestSeamHistories", func(t *testing.T, r *ev.Recorder, raw json.RawMessage) {
		var c seamHistCase
		if err := json.Unmarshal(raw, &c); err != nil {
			t.Fatalf("HARNESS-HEALTH: %v", err)
		}
		key, msg := runSeamHist(r, &c)
		r.Check(t, key == "", key, &c, "%s", msg)
	})
}
