// C07 — Dilithium keys and signatures equal the Dilithium5 (round 3.1) specification.
// Oracle: byte equality with dilref (plain mod-q arithmetic, literal NTT, generic bit packer),
// anchored on the vectors pinned in the repository's own tests.
package c07

import (
	"bytes"
	"encoding/hex"
	"encoding/json"
	"fmt"
	"testing"

	"github.com/theQRL/go-qrllib/dilithium"
	"pgregory.net/rapid"
	"verifharness/ev"
	"verifharness/pu"
	"verifharness/ref/dilref"
)

const prop = "C07"

func TestMain(m *testing.M) {
	ev.Main(m, prop, []ev.Job{
		{Test: "TestAnchor", Quick: 1, Thorough: 1},
		{Test: "TestKeyGenSign", Quick: 16, Thorough: 16},
		{Test: "TestHistories", Quick: 6, Thorough: 8},
		{Test: "TestSamplers", Quick: 4, Thorough: 8},
	})
}

func TestReplay(t *testing.T)  { ev.StdReplay(t, prop) }
func TestRegress(t *testing.T) { ev.StdRegress(t, prop) }

func TestAnchor(t *testing.T) {
	r := ev.New(t, prop, "TestAnchor")
	r.Rule("the reference model reproduces the public key, secret key and sealed-message signature pinned in the repository's dilithium_test.go")
	seed, _ := hex.DecodeString(pu.DilKATHexSeed)
	k := pu.DilRef(seed)
	r.Health(hex.EncodeToString(k.PK) == pu.DilKATPK, "dilref public key differs from the pinned PK1")
	r.Health(hex.EncodeToString(k.SK) == pu.DilKATSK, "dilref secret key differs from the pinned SK1")
	sig, trace := k.Sign(pu.DilKATMsg, "")
	r.Health(hex.EncodeToString(sig)+hex.EncodeToString(pu.DilKATMsg) == pu.DilKATSealed, "dilref signature differs from the pinned sealed message")
	r.Eval(3)
	r.NonTrivialEnum(3)
	r.Sample(map[string]any{"seed": pu.DilKATHexSeed, "attempts_for_pinned_signature": len(trace), "pk_prefix": pu.DilKATPK[:32]})
}

// ---- keys and signatures ----

type ksCase struct {
	Seed pu.HB   `json:"seed"`
	Msgs []pu.HB `json:"msgs"`
}

func runKS(r *ev.Recorder, c *ksCase) (string, string) {
	r.Pending(c) // a Sign that never returns is a violation too: the driver re-runs the case alone before saying so
	defer r.Done()
	d, err := pu.DilKey(c.Seed)
	if err != nil {
		return "keygen/error", err.Error()
	}
	ref := pu.DilRef(c.Seed)
	pk, sk := d.GetPK(), d.GetSK()
	r.Eval(1)
	if !bytes.Equal(pk[:], ref.PK) {
		return "pk/mismatch", fmt.Sprintf("public key differs from the specification at byte %d", firstDiff(pk[:], ref.PK))
	}
	if !bytes.Equal(sk[:], ref.SK) {
		return "sk/mismatch", fmt.Sprintf("secret key differs from the specification at byte %d (rho|key|tr|s1|s2|t0)", firstDiff(sk[:], ref.SK))
	}
	for _, e := range pu.KeyEvents(ref) {
		r.Count("key_boundary_"+e, 1)
	}
	for i, m := range c.Msgs {
		var sig [dilithium.CryptoBytes]byte
		var serr error
		if o := ev.Try(func() { sig, serr = d.Sign(m) }); o.Panicked || serr != nil {
			return "sign/panic-or-error", fmt.Sprintf("Sign(msg %d): %s err=%v", i, o, serr)
		}
		want, trace := ref.Sign(m, "")
		r.Eval(1)
		ti := pu.Classify(trace)
		r.Count("attempts_total", ti.Attempts)
		r.Count(fmt.Sprintf("signatures_with_%s_attempts", bucket(ti.Attempts)), 1)
		for k, v := range ti.Rejects {
			r.Count("reject_"+k, v)
		}
		for _, e := range ti.Events {
			r.Count("boundary_"+e, 1)
		}
		if !bytes.Equal(sig[:], want) {
			return "signature/mismatch", fmt.Sprintf("signature of msg %d (%d bytes) differs from the specification at byte %d; reference took %d attempts, rejections %v, boundary events %v",
				i, len(m), firstDiff(sig[:], want), ti.Attempts, ti.Rejects, ti.Events)
		}
		if ti.Attempts > 1 {
			r.NonTrivial("ks", []byte(c.Seed), []byte(m))
		}
		if len(ti.Events) > 0 {
			r.Count("signatures_with_boundary_event", 1)
		}
	}
	return "", ""
}

func bucket(n int) string {
	switch {
	case n == 1:
		return "1"
	case n <= 3:
		return "2-3"
	case n <= 7:
		return "4-7"
	case n <= 15:
		return "8-15"
	}
	return "16+"
}

func firstDiff(a, b []byte) int {
	for i := 0; i < len(a) && i < len(b); i++ {
		if a[i] != b[i] {
			return i
		}
	}
	return -1
}

func TestKeyGenSign(t *testing.T) {
	r := ev.New(t, prop, "TestKeyGenSign")
	r.Rule("rapid: 48-byte seeds (uniform + degenerate) x 3 messages each (rate-boundary lengths, up to 2000 bytes); (pk,sk) and every signature compared byte-for-byte with dilref; each signature is classified by the reference signer's trace (attempts, which rejection fired, tests met with equality); non-trivial = a signature whose trace contains at least one rejection, distinct by (seed,msg); boundary events are counted separately")
	r.Assume("not reachable by any input: the ct0 rejection (tau*2^(d-1) < gamma2 for this parameter set) and the refill branch of the uniform sampler (p ~ 1e-40)")
	checks := r.PerShard(r.Pick(3500, 110000))
	r.Rapid(t, "ks", checks, func(rt *rapid.T) {
		c := &ksCase{Seed: pu.Seed48().Draw(rt, "seed")}
		for i := 0; i < 3; i++ {
			c.Msgs = append(c.Msgs, pu.Msg(2000).Draw(rt, "msg"))
		}
		key, msg := runKS(r, c)
		r.Sample(map[string]any{"seed": pu.Short(c.Seed), "msg_lens": []int{len(c.Msgs[0]), len(c.Msgs[1]), len(c.Msgs[2])}})
		r.Check(rt, key == "", key, c, "%s", msg)
	})
}

// ---- histories: same message, any call order -> same bytes ----

type hop struct {
	Op  string `json:"op"` // sign, seal, getpk, getsk, verify, open, rebuild
	Key int    `json:"key"`
	Msg int    `json:"msg"`
}

type histCase struct {
	Seeds []pu.HB `json:"seeds"`
	Pool  []pu.HB `json:"pool"`
	Ops   []hop   `json:"ops"`
}

func runHist(r *ev.Recorder, c *histCase) (string, string) {
	r.Pending(c)
	defer r.Done()
	var ks []*dilithium.Dilithium
	var refs []*dilref.Keys
	for _, s := range c.Seeds {
		d, err := pu.DilKey(s)
		if err != nil {
			return "keygen/error", err.Error()
		}
		ks = append(ks, d)
		refs = append(refs, pu.DilRef(s))
	}
	// the caller re-uses one message buffer and one public-key array, overwriting them in place between calls
	maxLen := 0
	for _, m := range c.Pool {
		if len(m) > maxLen {
			maxLen = len(m)
		}
	}
	mbuf := make([]byte, maxLen)
	msgIn := func(i int) []byte { copy(mbuf, c.Pool[i]); return mbuf[:len(c.Pool[i])] }
	pkbuf := new([dilithium.CryptoPublicKeyBytes]byte)
	want := map[[2]int][]byte{}
	refSig := func(k, m int) []byte {
		if s, ok := want[[2]int{k, m}]; ok {
			return s
		}
		s, _ := refs[k].Sign(c.Pool[m], "")
		want[[2]int{k, m}] = s
		return s
	}
	seen := map[[2]int]int{}
	for n, o := range c.Ops {
		tag := fmt.Sprintf("op %d (%s key %d msg %d)", n, o.Op, o.Key, o.Msg)
		d := ks[o.Key]
		r.Eval(1)
		switch o.Op {
		case "sign":
			s, err := d.Sign(msgIn(o.Msg))
			if err != nil || !bytes.Equal(s[:], refSig(o.Key, o.Msg)) {
				return "history/sign-differs", fmt.Sprintf("%s: signature differs from the specification (occurrence %d of this message; err=%v)", tag, seen[[2]int{o.Key, o.Msg}]+1, err)
			}
			seen[[2]int{o.Key, o.Msg}]++
			if seen[[2]int{o.Key, o.Msg}] > 1 {
				r.NonTrivial("repeat", n, len(c.Ops), []byte(c.Seeds[0]), o.Key, o.Msg)
			}
		case "seal":
			s, err := d.Seal(msgIn(o.Msg))
			if err != nil || !bytes.Equal(s, append(append([]byte{}, refSig(o.Key, o.Msg)...), c.Pool[o.Msg]...)) {
				return "history/seal-differs", fmt.Sprintf("%s: sealed message differs from specification signature || message (err=%v)", tag, err)
			}
			seen[[2]int{o.Key, o.Msg}]++
		case "getpk":
			pk := d.GetPK()
			if !bytes.Equal(pk[:], refs[o.Key].PK) {
				return "history/pk-changed", tag + ": GetPK no longer equals the specification key"
			}
		case "getsk":
			sk := d.GetSK()
			if !bytes.Equal(sk[:], refs[o.Key].SK) {
				return "history/sk-changed", tag + ": GetSK no longer equals the specification key"
			}
		case "verify":
			var s [dilithium.CryptoBytes]byte
			copy(s[:], refSig(o.Key, o.Msg))
			*pkbuf = d.GetPK()
			if !dilithium.Verify(msgIn(o.Msg), s, pkbuf) {
				return "history/verify-false", tag + ": Verify rejects the specification signature"
			}
		case "verify-lookalike":
			// a public key that differs from the signer's in ONE bit (position drawn: rho beyond its first bytes, or t1),
			// written into the same array; it must be rejected, and must not influence what the key signs afterwards
			var s [dilithium.CryptoBytes]byte
			copy(s[:], refSig(o.Key, o.Msg%4))
			*pkbuf = d.GetPK()
			bit := 64 + (o.Msg/4*997)%(len(pkbuf)*8-64)
			pkbuf[bit/8] ^= 1 << uint(bit%8)
			if dilithium.Verify(msgIn(o.Msg%4), s, pkbuf) {
				return "history/lookalike-pk-accepted", fmt.Sprintf("%s: a signature verified under a public key with bit %d flipped", tag, bit)
			}
		case "open":
			*pkbuf = d.GetPK()
			sm := append(append([]byte{}, refSig(o.Key, o.Msg)...), c.Pool[o.Msg]...)
			if got := dilithium.Open(sm, pkbuf); !bytes.Equal(got, c.Pool[o.Msg]) {
				return "history/open-differs", tag + ": Open does not return the message"
			}
		case "rebuild":
			nd, err := pu.DilKey(c.Seeds[o.Key])
			if err != nil {
				return "keygen/error", err.Error()
			}
			ks[o.Key] = nd
		}
	}
	return "", ""
}

func TestHistories(t *testing.T) {
	r := ev.New(t, prop, "TestHistories")
	r.Rule("rapid histories over two key objects and a pool of 4 messages: Sign, Seal, GetPK, GetSK, Verify, Open, verification under a look-alike public key (one bit of rho/t1 flipped) and re-creation of a key in drawn order (repeats frequent); messages and public keys are handed over in ONE re-used buffer each, overwritten in place between calls; every Sign/Seal must return the bytes of the specification signature regardless of what ran before; non-trivial = a repeated signature of an already-signed (key,message), distinct by history")
	checks := r.PerShard(r.Pick(480, 12000))
	r.Rapid(t, "hist", checks, func(rt *rapid.T) {
		c := &histCase{Seeds: []pu.HB{pu.Seed48().Draw(rt, "seed0"), pu.Seed48().Draw(rt, "seed1")}}
		for i := 0; i < 4; i++ {
			c.Pool = append(c.Pool, pu.Msg(300).Draw(rt, "pool"))
		}
		n := rapid.IntRange(2, 14).Draw(rt, "nops")
		for i := 0; i < n; i++ {
			h := hop{Op: rapid.SampledFrom([]string{"sign", "sign", "sign", "seal", "seal", "getpk", "getsk", "verify", "open", "rebuild", "verify-lookalike", "verify-lookalike"}).Draw(rt, "op"),
				Key: rapid.IntRange(0, 1).Draw(rt, "key"), Msg: rapid.IntRange(0, 3).Draw(rt, "msg")}
			if h.Op == "verify-lookalike" {
				h.Msg += 4 * rapid.IntRange(0, 20000).Draw(rt, "bitSel")
			}
			c.Ops = append(c.Ops, h)
		}
		key, msg := runHist(r, c)
		var brief []string
		for _, o := range c.Ops {
			brief = append(brief, fmt.Sprintf("%s(k%d,m%d)", o.Op, o.Key, o.Msg))
		}
		r.Sample(map[string]any{"ops": brief})
		r.Check(rt, key == "", key, c, "%s", msg)
	})
}

func init() {
	ev.Register("TestKeyGenSign", func(t *testing.T, r *ev.Recorder, raw json.RawMessage) {
		var c ksCase
		if err := json.Unmarshal(raw, &c); err != nil {
			t.Fatalf("HARNESS-HEALTH: %v", err)
		}
		key, msg := runKS(r, &c)
		r.Check(t, key == "", key, &c, "%s", msg)
	})
	ev.Register("TestHistories", func(t *testing.T, r *ev.Recorder, raw json.RawMessage) {
		var c histCase
		if err := json.Unmarshal(raw, &c); err != nil {
			t.Fatalf("HARNESS-HEALTH: %v", err)
		}
		key, msg := runHist(r, &c)
		r.Check(t, key == "", key, &c, "%s", msg)
	})
}
