package c07

import (
	"encoding/json"
	"fmt"
	"os"
	"path/filepath"
	"strconv"
	"sync"
	"testing"

	"verifharness/ev"
	"verifharness/pu"
)

// TestHunt is a tool, not a check (it is not in the job table): with VERIF_HUNT_DIR set it searches
// (seed, message) pairs whose REFERENCE signing trace meets a rejection test with equality and saves
// them as regress inputs for TestKeyGenSign. Only the reference model is consulted while hunting.
func TestHunt(t *testing.T) {
	dir := os.Getenv("VERIF_HUNT_DIR")
	if dir == "" {
		t.Skip("VERIF_HUNT_DIR not set")
	}
	n, _ := strconv.Atoi(os.Getenv("VERIF_HUNT_N"))
	if n == 0 {
		n = 20000
	}
	per, _ := strconv.Atoi(os.Getenv("VERIF_HUNT_PER_KIND"))
	if per == 0 {
		per = 40
	}
	start, _ := strconv.Atoi(os.Getenv("VERIF_HUNT_START"))
	os.MkdirAll(dir, 0o755)
	var mu sync.Mutex
	found := map[string]int{}
	var wg sync.WaitGroup
	const workers = 16
	for w := 0; w < workers; w++ {
		wg.Add(1)
		go func(w int) {
			defer wg.Done()
			for i := start + w; i < start+n; i += workers {
				seed := pu.DetBytes(uint64(i)*2654435761+99, 48)
				k := pu.DilRef(seed)
				for m := 0; m < 6; m++ {
					msg := pu.DetBytes(uint64(i)*31+uint64(m)+5, pu.MsgLens[(i+m)%len(pu.MsgLens)])
					_, trace := k.Sign(msg, "")
					ti := pu.Classify(trace)
					events := ti.Events
					if os.Getenv("VERIF_HUNT_LONG") != "" {
						events = nil // hunting long rejection runs only
						if ti.Attempts >= 33 {
							events = []string{"long-run-33plus"}
						}
						if ti.Attempts >= 45 {
							events = []string{"long-run-45plus"}
						}
					}
					for _, e := range events {
						mu.Lock()
						if found[e] < per {
							found[e]++
							rep := ev.Replay{Property: prop, Test: "TestKeyGenSign", Key: "boundary/" + e, Message: "regress input: reference trace meets " + e}
							rep.Case, _ = json.Marshal(&ksCase{Seed: seed, Msgs: []pu.HB{msg}})
							b, _ := json.MarshalIndent(rep, "", " ")
							os.WriteFile(filepath.Join(dir, fmt.Sprintf("boundary-%s-%06d-%d.json", sanitize(e), i, m)), b, 0o644)
						}
						mu.Unlock()
					}
				}
			}
		}(w)
	}
	wg.Wait()
	t.Logf("hunt result: %v", found)
}

func sanitize(s string) string {
	o := []byte(s)
	for i, c := range o {
		if !(c >= 'a' && c <= 'z' || c >= '0' && c <= '9' || c == '-') {
			o[i] = '_'
		}
	}
	return string(o)
}
