package c07

import (
	"encoding/binary"
	"encoding/json"
	"fmt"
	"os"
	"path/filepath"
	"strconv"
	"sync"
	"testing"

	"golang.org/x/crypto/sha3"
	"verifharness/ev"
	"verifharness/pu"
)

// TestHunt is a tool, not a check (it is not in the job table): with VERIF_HUNT_DIR set it searches
// (seed, message) pairs whose REFERENCE signing trace meets a rejection test with equality and saves
// them as regress inputs for TestKeyGenSign. Only the reference model is consulted while hunting.
func TestHunt(t *testing.T) {
	dir := os.Getenv("VERIF_HUNT_DIR")
	if dir == "" {
		t.Skip("VERIF_HUNT_DIR not set")
	}
	n, _ := strconv.Atoi(os.Getenv("VERIF_HUNT_N"))
	if n == 0 {
		n = 20000
	}
	per, _ := strconv.Atoi(os.Getenv("VERIF_HUNT_PER_KIND"))
	if per == 0 {
		per = 40
	}
	start, _ := strconv.Atoi(os.Getenv("VERIF_HUNT_START"))
	os.MkdirAll(dir, 0o755)
	var mu sync.Mutex
	found := map[string]int{}
	var wg sync.WaitGroup
	const workers = 16
	for w := 0; w < workers; w++ {
		wg.Add(1)
		go func(w int) {
			defer wg.Done()
			for i := start + w; i < start+n; i += workers {
				seed := pu.DetBytes(uint64(i)*2654435761+99, 48)
				k := pu.DilRef(seed)
				for m := 0; m < 6; m++ {
					msg := pu.DetBytes(uint64(i)*31+uint64(m)+5, pu.MsgLens[(i+m)%len(pu.MsgLens)])
					_, trace := k.Sign(msg, "")
					ti := pu.Classify(trace)
					events := ti.Events
					if os.Getenv("VERIF_HUNT_LONG") != "" {
						events = nil // hunting long rejection runs only
						if ti.Attempts >= 33 {
							events = []string{"long-run-33plus"}
						}
						if ti.Attempts >= 37 {
							// the mask nonce of attempt a is 7a..7a+6: from the 37th attempt on it needs its second byte
							events = []string{"long-run-37plus-nonce-two-bytes"}
						}
						if ti.Attempts >= 45 {
							events = []string{"long-run-45plus"}
						}
					}
					for _, e := range events {
						mu.Lock()
						if found[e] < per {
							found[e]++
							rep := ev.Replay{Property: prop, Test: "TestKeyGenSign", Key: "boundary/" + e, Message: "regress input: reference trace meets " + e}
							rep.Case, _ = json.Marshal(&ksCase{Seed: seed, Msgs: []pu.HB{msg}})
							b, _ := json.MarshalIndent(rep, "", " ")
							os.WriteFile(filepath.Join(dir, fmt.Sprintf("boundary-%s-%06d-%d.json", sanitize(e), i, m)), b, 0o644)
						}
						mu.Unlock()
					}
				}
			}
		}(w)
	}
	wg.Wait()
	t.Logf("hunt result: %v", found)
}

func sanitize(s string) string {
	o := []byte(s)
	for i, c := range o {
		if !(c >= 'a' && c <= 'z' || c >= '0' && c <= '9' || c == '-') {
			o[i] = '_'
		}
	}
	return string(o)
}

// TestHuntChallenge is a tool like TestHunt: it searches 32-byte challenge seeds whose expansion into the sparse
// challenge polynomial consumes unusually MANY bytes of the SHAKE-256 stream (many rejected position bytes; the
// average is about 75, every byte beyond that is rarer by a factor of roughly two). An implementation that squeezes a
// fixed number of bytes and mishandles the refill misbehaves only on such seeds - and they can be found offline by
// anyone, then placed in the first 32 bytes of a signature. The seeds are saved as regress inputs for TestSamplers
// (C07) and, spliced into an honest signature, for the hostile-input check (C14) and the rejection check (C05).
// Only SHAKE-256 and the specification's sampling loop are consulted while hunting.
func TestHuntChallenge(t *testing.T) {
	dir := os.Getenv("VERIF_HUNT_DIR")
	if dir == "" {
		t.Skip("VERIF_HUNT_DIR not set")
	}
	n, _ := strconv.Atoi(os.Getenv("VERIF_HUNT_N"))
	if n == 0 {
		n = 400_000_000
	}
	least, _ := strconv.Atoi(os.Getenv("VERIF_HUNT_LEAST"))
	if least == 0 {
		least = 97
	}
	type hit struct {
		seed     []byte
		consumed int
	}
	var mu sync.Mutex
	var hits []hit
	var wg sync.WaitGroup
	const workers = 16
	for w := 0; w < workers; w++ {
		wg.Add(1)
		go func(w int) {
			defer wg.Done()
			seed := pu.DetBytes(uint64(w)+777, 32)
			var buf [136]byte
			h := sha3.NewShake256()
			for i := w; i < n; i += workers {
				binary.LittleEndian.PutUint64(seed, uint64(i))
				h.Reset()
				h.Write(seed)
				h.Read(buf[:])
				pos := 8
				for c := 256 - 60; c < 256 && pos < len(buf); c++ {
					for pos < len(buf) {
						b := int(buf[pos])
						pos++
						if b <= c {
							break
						}
					}
				}
				if pos >= least {
					mu.Lock()
					hits = append(hits, hit{append([]byte{}, seed...), pos})
					mu.Unlock()
				}
			}
		}(w)
	}
	wg.Wait()
	os.MkdirAll(dir, 0o755)
	byCount := map[int]int{}
	for _, h := range hits {
		byCount[h.consumed]++
		if byCount[h.consumed] > 12 {
			continue
		}
		rep := ev.Replay{Property: prop, Test: "TestSamplers", Key: "challenge/stream-bytes-" + strconv.Itoa(h.consumed), Message: fmt.Sprintf("regress input: challenge seed whose expansion consumes %d stream bytes", h.consumed)}
		rep.Case, _ = json.Marshal(map[string]any{"kind": "polyChallenge", "seed": pu.HB(h.seed)})
		b, _ := json.MarshalIndent(rep, "", " ")
		os.WriteFile(filepath.Join(dir, fmt.Sprintf("challenge-%03d-bytes-%x.json", h.consumed, h.seed[:8])), b, 0o644)
	}
	t.Logf("hunt result (stream bytes consumed -> seeds found): %v", byCount)
}

// TestHuntKeys is a tool like TestHunt: it searches seeds whose REFERENCE key generation passes through a rare
// arithmetic corner (a coefficient of t exactly 0 or q-1, a sum A*s1+s2 that wraps around 0 or q) and saves them as
// regress inputs for TestKeyGenSign. About one key in a thousand has such a coefficient.
func TestHuntKeys(t *testing.T) {
	dir := os.Getenv("VERIF_HUNT_DIR")
	if dir == "" {
		t.Skip("VERIF_HUNT_DIR not set")
	}
	n, _ := strconv.Atoi(os.Getenv("VERIF_HUNT_N"))
	if n == 0 {
		n = 200000
	}
	per, _ := strconv.Atoi(os.Getenv("VERIF_HUNT_PER_KIND"))
	if per == 0 {
		per = 25
	}
	os.MkdirAll(dir, 0o755)
	var mu sync.Mutex
	found := map[string]int{}
	var wg sync.WaitGroup
	const workers = 16
	for w := 0; w < workers; w++ {
		wg.Add(1)
		go func(w int) {
			defer wg.Done()
			for i := w; i < n; i += workers {
				seed := pu.DetBytes(uint64(i)*2654435761+4242, 48)
				k := pu.DilRef(seed)
				for _, e := range pu.KeyEvents(k) {
					if e == "t-rounding-tie" || e == "t1-largest" {
						continue // common: every random run meets them
					}
					mu.Lock()
					if found[e] < per {
						found[e]++
						rep := ev.Replay{Property: prop, Test: "TestKeyGenSign", Key: "keyboundary/" + e, Message: "regress input: reference key generation meets " + e}
						rep.Case, _ = json.Marshal(&ksCase{Seed: seed, Msgs: []pu.HB{pu.DetBytes(uint64(i)+1, 33)}})
						b, _ := json.MarshalIndent(rep, "", " ")
						os.WriteFile(filepath.Join(dir, fmt.Sprintf("keyboundary-%s-%06d.json", sanitize(e), i)), b, 0o644)
					}
					mu.Unlock()
				}
			}
		}(w)
	}
	wg.Wait()
	t.Logf("hunt result: %v", found)
}
