//go:build verif

package c07

import (
	"encoding/json"
	"fmt"
	"testing"

	"github.com/theQRL/go-qrllib/dilithium"
	"pgregory.net/rapid"
	"verifharness/ev"
	"verifharness/pu"
	"verifharness/ref/dilref"
)

type sampCase struct {
	Kind  string `json:"kind"` // rejUniform, rejEta, polyUniform, polyUniformEta, polyUniformGamma1, polyChallenge
	Buf   pu.HB  `json:"buf,omitempty"`
	Max   int    `json:"max,omitempty"`
	Seed  pu.HB  `json:"seed,omitempty"`
	Nonce int    `json:"nonce,omitempty"`
}

func eqCoeffs(lib []int32, ref []int64, centred bool) (bool, int) {
	if len(lib) != len(ref) {
		return false, -1
	}
	for i := range lib {
		w := ref[i]
		if centred {
			w = dilref.Centre(w)
		}
		if int64(lib[i]) != w {
			return false, i
		}
	}
	return true, 0
}

func runSamp(r *ev.Recorder, c *sampCase) (key, msg string) {
	// a sampler that faults (e.g. reads past a stream buffer it sized too small) is a violation, not a crash of the check
	if o := ev.Try(func() { key, msg = runSampInner(r, c) }); o.Panicked {
		return c.Kind + "/panic", fmt.Sprintf("%s raised %s", c.Kind, o)
	}
	return key, msg
}

func runSampInner(r *ev.Recorder, c *sampCase) (string, string) {
	r.Eval(1)
	switch c.Kind {
	case "rejUniform":
		a := make([]int32, c.Max)
		for i := range a {
			a[i] = -7 // sentinel: untouched slots must stay untouched
		}
		var n uint32
		if o := ev.Try(func() { n = dilithium.VerifRejUniform(a, c.Buf) }); o.Panicked {
			return "rejUniform/panic", o.String()
		}
		ref := dilref.RejUniformBuf(c.Buf, c.Max)
		if int(n) != len(ref) {
			return "rejUniform/count", fmt.Sprintf("accepted %d coefficients, specification accepts %d (buffer %d bytes, room %d)", n, len(ref), len(c.Buf), c.Max)
		}
		if ok, i := eqCoeffs(a[:n], ref, false); !ok {
			return "rejUniform/value", fmt.Sprintf("coefficient %d differs: %d vs %d", i, a[i], ref[i])
		}
		for i := int(n); i < c.Max; i++ {
			if a[i] != -7 {
				return "rejUniform/overrun", fmt.Sprintf("slot %d beyond the accepted count was written", i)
			}
		}
	case "rejEta":
		a := make([]int32, c.Max)
		for i := range a {
			a[i] = -7
		}
		var n uint32
		if o := ev.Try(func() { n = dilithium.VerifRejEta(a, c.Buf) }); o.Panicked {
			return "rejEta/panic", o.String()
		}
		ref := dilref.RejEtaBuf(c.Buf, c.Max)
		if int(n) != len(ref) {
			return "rejEta/count", fmt.Sprintf("accepted %d coefficients, specification accepts %d (buffer %d bytes, room %d)", n, len(ref), len(c.Buf), c.Max)
		}
		if ok, i := eqCoeffs(a[:n], ref, false); !ok {
			return "rejEta/value", fmt.Sprintf("coefficient %d differs: %d vs %d", i, a[i], ref[i])
		}
		for i := int(n); i < c.Max; i++ {
			if a[i] != -7 {
				return "rejEta/overrun", fmt.Sprintf("slot %d beyond the accepted count was written", i)
			}
		}
	case "polyUniform":
		var s [32]byte
		copy(s[:], c.Seed)
		got, err := dilithium.VerifPolyUniform(&s, uint16(c.Nonce))
		ref := dilref.ExpandAEntry(s[:], c.Nonce>>8, c.Nonce&0xff)
		if ok, i := eqCoeffs(got[:], ref[:], false); err != nil || !ok {
			return "polyUniform/value", fmt.Sprintf("matrix entry (nonce %#x) differs from ExpandA at coefficient %d (err=%v)", c.Nonce, i, err)
		}
	case "polyUniformEta":
		var s [64]byte
		copy(s[:], c.Seed)
		got, err := dilithium.VerifPolyUniformEta(&s, uint16(c.Nonce))
		ref := dilref.SampleEta(s[:], c.Nonce)
		if ok, i := eqCoeffs(got[:], ref[:], true); err != nil || !ok {
			return "polyUniformEta/value", fmt.Sprintf("secret polynomial (nonce %d) differs at coefficient %d (err=%v)", c.Nonce, i, err)
		}
	case "polyUniformGamma1":
		var s [64]byte
		copy(s[:], c.Seed)
		got := dilithium.VerifPolyUniformGamma1(s, uint16(c.Nonce))
		ref := dilref.ExpandMaskPoly(s[:], c.Nonce)
		if ok, i := eqCoeffs(got[:], ref[:], true); !ok {
			return "polyUniformGamma1/value", fmt.Sprintf("mask polynomial (nonce %d) differs at coefficient %d", c.Nonce, i)
		}
	case "polyChallenge":
		got, err := dilithium.VerifPolyChallenge(c.Seed)
		ref := dilref.SampleInBall(c.Seed)
		if ok, i := eqCoeffs(got[:], ref[:], true); err != nil || !ok {
			return "polyChallenge/value", fmt.Sprintf("challenge polynomial differs at coefficient %d (err=%v)", i, err)
		}
	}
	return "", ""
}

// candidate 3-byte groups around the acceptance boundary of the uniform sampler
func uniGroup(t *rapid.T) []byte {
	const q = dilref.Q
	v := rapid.SampledFrom([]int{0, 1, q - 2, q - 1, q, q + 1, 1<<23 - 1, 1<<23 - 2, q / 2, -1}).Draw(t, "v")
	if v < 0 {
		v = rapid.IntRange(0, 1<<23-1).Draw(t, "rv")
	}
	b := []byte{byte(v), byte(v >> 8), byte(v >> 16)}
	if rapid.Bool().Draw(t, "topbit") {
		b[2] |= 0x80
	}
	return b
}

func TestSamplers(t *testing.T) {
	r := ev.New(t, prop, "TestSamplers")
	r.Rule("hooked: the rejection samplers are fed buffers built from boundary candidates (uniform: 3-byte groups encoding 0,1,q-2,q-1,q,q+1,2^23-2,2^23-1 with the ignored top bit set or clear; eta: nibbles 0,4,5,9,10,14,15) of lengths around the stream block sizes, with varying room, and compared with the streaming reference samplers (count, values, no write past the count); the four seeded expanders (matrix entry, secret, mask, challenge) are compared with dilref on rapid seeds/nonces, the challenge expander also on seeds found by an offline search to consume 97..102 stream bytes; non-trivial = a buffer containing at least one candidate exactly at the acceptance boundary (q-1/q, nibble 14/15), distinct by content")
	checks := r.PerShard(r.Pick(12000, 400000))
	r.Rapid(t, "samp", checks, func(rt *rapid.T) {
		c := &sampCase{Kind: rapid.SampledFrom([]string{"rejUniform", "rejUniform", "rejEta", "rejEta", "polyUniform", "polyUniformEta", "polyUniformGamma1", "polyChallenge"}).Draw(rt, "kind")}
		boundary := false
		switch c.Kind {
		case "rejUniform":
			n := rapid.SampledFrom([]int{0, 1, 2, 3, 5, 30, 167, 168, 169, 255, 256, 257, 280, 281}).Draw(rt, "groups")
			for i := 0; i < n; i++ {
				g := uniGroup(rt)
				v := int(g[0]) | int(g[1])<<8 | int(g[2]&0x7f)<<16
				if v == dilref.Q || v == dilref.Q-1 {
					boundary = true
				}
				c.Buf = append(c.Buf, g...)
			}
			c.Buf = append(c.Buf, make([]byte, rapid.IntRange(0, 2).Draw(rt, "tail"))...)
			c.Max = rapid.SampledFrom([]int{0, 1, 2, 255, 256, 256, 300}).Draw(rt, "room")
		case "rejEta":
			n := rapid.SampledFrom([]int{0, 1, 2, 64, 127, 128, 129, 135, 136, 137, 272}).Draw(rt, "bytes")
			for i := 0; i < n; i++ {
				lo := rapid.SampledFrom([]int{0, 4, 5, 9, 10, 14, 15, 15}).Draw(rt, "lo")
				hi := rapid.SampledFrom([]int{0, 4, 5, 9, 10, 14, 15, 15}).Draw(rt, "hi")
				if lo >= 14 || hi >= 14 {
					boundary = true
				}
				c.Buf = append(c.Buf, byte(hi<<4|lo))
			}
			c.Max = rapid.SampledFrom([]int{0, 1, 2, 3, 255, 256, 256}).Draw(rt, "room")
		case "polyUniform":
			c.Seed = pu.DetBytes(rapid.Uint64().Draw(rt, "seed"), 32)
			c.Nonce = rapid.IntRange(0, 7).Draw(rt, "i")<<8 | rapid.IntRange(0, 6).Draw(rt, "j")
		case "polyUniformEta", "polyUniformGamma1":
			c.Seed = pu.DetBytes(rapid.Uint64().Draw(rt, "seed"), 64)
			c.Nonce = rapid.IntRange(0, 700).Draw(rt, "nonce")
		case "polyChallenge":
			c.Seed = pu.DetBytes(rapid.Uint64().Draw(rt, "seed"), 32)
			if rapid.IntRange(0, 3).Draw(rt, "hungry") == 0 {
				// seeds found offline whose expansion consumes 97..102 stream bytes (usually ~75)
				c.Seed, _ = pu.HungryChallengeSeed(rapid.IntRange(0, len(pu.HungryChallengeSeeds)-1).Draw(rt, "which"))
				boundary = true
				r.Count("challenge_seed_hungry", 1)
			}
		}
		key, msg := runSamp(r, c)
		r.Count("kind_"+c.Kind, 1)
		if boundary {
			r.NonTrivial(c.Kind, []byte(c.Buf), c.Max, []byte(c.Seed))
		}
		r.Sample(map[string]any{"kind": c.Kind, "buf": pu.Short(c.Buf), "room": c.Max, "nonce": c.Nonce})
		r.Check(rt, key == "", key, c, "%s", msg)
	})
}

func init() {
	ev.Register("TestSamplers", func(t *testing.T, r *ev.Recorder, raw json.RawMessage) {
		var c sampCase
		if err := json.Unmarshal(raw, &c); err != nil {
			t.Fatalf("HARNESS-HEALTH: %v", err)
		}
		key, msg := runSamp(r, &c)
		r.Check(t, key == "", key, &c, "%s", msg)
	})
}
