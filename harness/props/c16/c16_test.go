// C16 — JavaScript-facing string wrappers agree with the core API.
// Oracle: wrapper(hex rendering) == core(decoded bytes) for well-formed exact-length hex with or
// without a 0x prefix; non-hex strings give false / "" and never a panic.
package c16

import (
	"encoding/hex"
	"encoding/json"
	"fmt"
	"strings"
	"testing"
	"unicode/utf8"

	"github.com/theQRL/go-qrllib/dilithium"
	"github.com/theQRL/go-qrllib/qrllib-js/dilithiumjs"
	"github.com/theQRL/go-qrllib/qrllib-js/xmssjs"
	"github.com/theQRL/go-qrllib/xmss"
	"pgregory.net/rapid"
	"verifharness/ev"
	"verifharness/pu"
	"verifharness/ref/xmssref"
)

const prop = "C16"

func TestMain(m *testing.M) {
	ev.Main(m, prop, []ev.Job{
		{Test: "TestWrappers", Quick: 8, Thorough: 16},
	})
}

func TestReplay(t *testing.T)  { ev.StdReplay(t, prop) }
func TestRegress(t *testing.T) { ev.StdRegress(t, prop) }

// wcase is the replayable case: the exact strings handed to one wrapper.
type wcase struct {
	Func  string `json:"func"` // DilithiumVerify, GetDilithiumAddressFromPK, IsValidDilithiumAddress, XMSSVerify, GetXMSSAddressFromPK, IsValidXMSSAddress
	Class string `json:"class"`
	Msg   pu.HB  `json:"msg,omitempty"`
	Sig   string `json:"sig,omitempty"`
	PK    string `json:"pk,omitempty"`
	Addr  string `json:"addr,omitempty"`
}

// strings that are not valid UTF-8 (a hex digit replaced by a byte >= 0x80) travel as hex in replay files
func (c wcase) MarshalJSON() ([]byte, error) {
	type plain wcase
	if utf8.ValidString(c.Sig) && utf8.ValidString(c.PK) && utf8.ValidString(c.Addr) {
		return json.Marshal(plain(c))
	}
	raw := [3]pu.HB{pu.HB(c.Sig), pu.HB(c.PK), pu.HB(c.Addr)}
	c.Sig, c.PK, c.Addr = "", "", ""
	return json.Marshal(struct {
		plain
		Raw [3]pu.HB `json:"sig_pk_addr_hex_of_raw_bytes"`
	}{plain(c), raw})
}

func (c *wcase) UnmarshalJSON(d []byte) error {
	type plain wcase
	var v struct {
		plain
		Raw *[3]pu.HB `json:"sig_pk_addr_hex_of_raw_bytes"`
	}
	if err := json.Unmarshal(d, &v); err != nil {
		return err
	}
	*c = wcase(v.plain)
	if v.Raw != nil {
		c.Sig, c.PK, c.Addr = string(v.Raw[0]), string(v.Raw[1]), string(v.Raw[2])
	}
	return nil
}

// parseHex is an independent reading of "well-formed hexadecimal, optional 0x prefix".
func parseHex(s string) (b []byte, wellFormed bool) {
	if strings.HasPrefix(s, "0x") {
		s = s[2:]
	}
	if len(s)%2 != 0 {
		return nil, false
	}
	val := func(c byte) int {
		switch {
		case c >= '0' && c <= '9':
			return int(c - '0')
		case c >= 'a' && c <= 'f':
			return int(c-'a') + 10
		case c >= 'A' && c <= 'F':
			return int(c-'A') + 10
		}
		return -1
	}
	b = make([]byte, len(s)/2)
	for i := 0; i < len(s); i += 2 {
		hi, lo := val(s[i]), val(s[i+1])
		if hi < 0 || lo < 0 {
			return nil, false
		}
		b[i/2] = byte(hi<<4 | lo)
	}
	return b, true
}

type result struct {
	Out ev.Outcome
	B   bool
	S   string
}

func (r result) String() string {
	if r.Out.Panicked {
		return r.Out.String()
	}
	return fmt.Sprintf("(%v,%q)", r.B, r.S)
}

// judge returns ("","") if the wrapper behaved as the property demands. scope tells how the case was classified.
func judge(c *wcase) (key, msg, scope string) {
	var w result
	w.Out = ev.Try(func() {
		switch c.Func {
		case "DilithiumVerify":
			w.B = dilithiumjs.DilithiumVerify(c.Msg, c.Sig, c.PK)
		case "GetDilithiumAddressFromPK":
			w.S = dilithiumjs.GetDilithiumAddressFromPK(c.PK)
		case "IsValidDilithiumAddress":
			w.B = dilithiumjs.IsValidDilithiumAddress(c.Addr)
		case "XMSSVerify":
			w.B = xmssjs.XMSSVerify(string(c.Msg), c.Sig, c.PK)
		case "GetXMSSAddressFromPK":
			w.S = xmssjs.GetXMSSAddressFromPK(c.PK)
		case "IsValidXMSSAddress":
			w.B = xmssjs.IsValidXMSSAddress(c.Addr)
		default:
			panic("harness: unknown func " + c.Func)
		}
	})
	if w.Out.Panicked && !w.Out.IsString {
		return c.Func + "/non-string-panic", fmt.Sprintf("%s(%s): wrapper raised %s", c.Func, c.Class, w.Out), "crash"
	}
	// classify the inputs
	type arg struct {
		s    string
		want int // exact byte length, -1 = any (XMSS signature: the core interprets the length)
	}
	var args []arg
	switch c.Func {
	case "DilithiumVerify":
		args = []arg{{c.Sig, dilithium.CryptoBytes}, {c.PK, dilithium.CryptoPublicKeyBytes}}
	case "GetDilithiumAddressFromPK":
		args = []arg{{c.PK, dilithium.CryptoPublicKeyBytes}}
	case "IsValidDilithiumAddress", "IsValidXMSSAddress":
		args = []arg{{c.Addr, 20}}
	case "XMSSVerify":
		args = []arg{{c.Sig, -1}, {c.PK, 67}}
	case "GetXMSSAddressFromPK":
		args = []arg{{c.PK, 67}}
	}
	var dec [][]byte
	nonHex, wrongLen := false, false
	for _, a := range args {
		b, ok := parseHex(a.s)
		if !ok {
			nonHex = true
		} else if a.want >= 0 && len(b) != a.want {
			wrongLen = true
		}
		dec = append(dec, b)
	}
	if nonHex {
		// "for input that is not valid hexadecimal they return false or an empty string rather than failing"
		if w.Out.Panicked {
			return c.Func + "/non-hex-panics", fmt.Sprintf("%s(%s): non-hex input made the wrapper fail with %s", c.Func, c.Class, w.Out), "non-hex"
		}
		if w.B || w.S != "" {
			return c.Func + "/non-hex-not-refused", fmt.Sprintf("%s(%s): non-hex input returned %s, want false / \"\"", c.Func, c.Class, w), "non-hex"
		}
		return "", "", "non-hex"
	}
	if wrongLen {
		return "", "", "out-of-scope-length" // the property speaks of exact-length input only
	}
	// core on the decoded bytes
	var core result
	core.Out = ev.Try(func() {
		switch c.Func {
		case "DilithiumVerify":
			var sig [dilithium.CryptoBytes]byte
			var pk [dilithium.CryptoPublicKeyBytes]byte
			copy(sig[:], dec[0])
			copy(pk[:], dec[1])
			core.B = dilithium.Verify(c.Msg, sig, &pk)
		case "GetDilithiumAddressFromPK":
			var pk [dilithium.CryptoPublicKeyBytes]byte
			copy(pk[:], dec[0])
			a := dilithium.GetDilithiumAddressFromPK(pk)
			core.S = hex.EncodeToString(a[:])
		case "IsValidDilithiumAddress":
			var a [20]byte
			copy(a[:], dec[0])
			core.B = dilithium.IsValidDilithiumAddress(a)
		case "XMSSVerify":
			var pk [67]byte
			copy(pk[:], dec[1])
			core.B = xmss.Verify(c.Msg, dec[0], pk)
		case "GetXMSSAddressFromPK":
			var pk [67]byte
			copy(pk[:], dec[0])
			a := xmss.GetXMSSAddressFromPK(pk)
			core.S = hex.EncodeToString(a[:])
		case "IsValidXMSSAddress":
			var a [20]byte
			copy(a[:], dec[0])
			core.B = xmss.IsValidXMSSAddress(a)
		}
	})
	if core.Out.Panicked != w.Out.Panicked || (core.Out.Panicked && core.Out.Text != w.Out.Text) {
		return c.Func + "/refusal-differs", fmt.Sprintf("%s(%s): wrapper %s, core %s", c.Func, c.Class, w, core), "hex"
	}
	if core.Out.Panicked {
		return "", "", "hex-core-refuses"
	}
	if w.B != core.B {
		return c.Func + "/result-differs/" + prefixPattern(c), fmt.Sprintf("%s(%s): wrapper returns %v, core returns %v on the decoded bytes", c.Func, c.Class, w.B, core.B), "hex"
	}
	if core.S != "" || w.S != "" {
		got, ok := parseHex(w.S)
		if !ok || hex.EncodeToString(got) != core.S {
			return c.Func + "/address-differs/" + prefixPattern(c), fmt.Sprintf("%s(%s): wrapper returns %q, core address %s", c.Func, c.Class, w.S, core.S), "hex"
		}
		if c.Func == "GetDilithiumAddressFromPK" && w.S != "0x"+core.S {
			return c.Func + "/address-format", fmt.Sprintf("wrapper returns %q, documented form is %q", w.S, "0x"+core.S), "hex"
		}
	}
	if core.B {
		return "", "", "hex-core-true"
	}
	return "", "", "hex"
}

func prefixPattern(c *wcase) string {
	p := ""
	for _, s := range []string{c.Sig, c.PK, c.Addr} {
		if s == "" {
			continue
		}
		if strings.HasPrefix(s, "0x") {
			p += "0x-"
		} else {
			p += "bare-"
		}
	}
	return strings.TrimSuffix(p, "-")
}

func init() {
	ev.Register("TestWrappers", func(t *testing.T, r *ev.Recorder, raw json.RawMessage) {
		var c wcase
		if err := json.Unmarshal(raw, &c); err != nil {
			t.Fatalf("HARNESS-HEALTH: %v", err)
		}
		key, msg, _ := judge(&c)
		r.Check(t, key == "", key, &c, "%s", msg)
	})
}

// ---- generators ----

func render(t *rapid.T, b []byte, label string) string {
	s := hex.EncodeToString(b)
	switch rapid.IntRange(0, 2).Draw(t, label+"Case") {
	case 1:
		s = strings.ToUpper(s)
	case 2:
		// mixed case driven by one drawn word (cheap for long strings)
		x := rapid.Uint64().Draw(t, label+"Mix") | 1
		bs := []byte(s)
		for i := range bs {
			x ^= x << 13
			x ^= x >> 7
			x ^= x << 17
			if x&1 == 1 && bs[i] >= 'a' && bs[i] <= 'f' {
				bs[i] -= 32
			}
		}
		s = string(bs)
	}
	if rapid.Bool().Draw(t, label+"0x") {
		s = "0x" + s
	}
	return s
}

var nonHexKinds = []string{"byte-next-to-hex-ranges", "byte-next-to-hex-ranges", "tail-after-full-length", "tail-after-full-length", "embedded-0x-inserted", "embedded-0x-replacing", "odd-length", "rune-g", "rune-space", "rune-dash", "rune-multibyte", "rune-nul", "0x0x-prefix", "leading-space", "trailing-newline", "0x-odd", "x-only-prefix", "fullwidth-hex-digits", "fullwidth-hex-digits"}

// spoil turns a well-formed rendering into a non-hex string by one named edit.
func spoil(t *rapid.T, s string, label string) (string, string) {
	kind := rapid.SampledFrom(nonHexKinds).Draw(t, label+"Kind")
	body, pre := s, ""
	if strings.HasPrefix(s, "0x") {
		body, pre = s[2:], "0x"
	}
	pos := 0
	if len(body) > 0 {
		pos = rapid.IntRange(0, len(body)-1).Draw(t, label+"Pos")
	}
	put := func(r string) string { return pre + body[:pos] + r + body[pos+1:] }
	switch kind {
	case "tail-after-full-length":
		// the whole expected length is well-formed hex, MORE well-formed hex follows, and only then the foreign character
		extra := strings.Repeat("0123456789abcdefABCDEF", 2)[:2*rapid.IntRange(1, 20).Draw(t, label+"Extra")]
		junk := rapid.SampledFrom([]string{"zz", "g", "\n ", "0g", " ", "-", "é"}).Draw(t, label+"Junk")
		return s + extra + junk, kind
	case "fullwidth-hex-digits":
		// one or two hex digits replaced by their FULLWIDTH forms (U+FF10.., U+FF21.., U+FF41..): "hex digits" by the
		// Unicode property, not by any hex decoder; the byte length stays even
		fw := func(c byte) string {
			switch {
			case c >= '0' && c <= '9':
				return string(rune(0xFF10 + int(c-'0')))
			case c >= 'A' && c <= 'F':
				return string(rune(0xFF21 + int(c-'A')))
			case c >= 'a' && c <= 'f':
				return string(rune(0xFF41 + int(c-'a')))
			}
			return "０"
		}
		if len(body) == 0 {
			return pre + "０１", kind
		}
		n := 1 + rapid.IntRange(0, 1).Draw(t, label+"Two")
		if pos+n > len(body) {
			pos = len(body) - n
			if pos < 0 {
				pos, n = 0, len(body)
			}
		}
		out := pre + body[:pos]
		for i := 0; i < n; i++ {
			out += fw(body[pos+i])
		}
		return out + body[pos+n:], kind
	case "byte-next-to-hex-ranges":
		// one character replaced by a byte that is NOT a hex digit but sits next to the digit / letter ranges or is a
		// digit or letter with one bit changed (0x10..0x19 = '0'..'9' without bit 5, 0x40/'G'/'`'/'g', '/' and ':' ...)
		cands := []byte{'/', ':', '@', 'G', '`', 'g', 0x10, 0x11, 0x15, 0x19, 0x1a, 0x21, 0x26, 0x27, 0xb0, 0xb9, 0xc1, 0xe1, 0xe6, 0x7f, 0x80, 0xff, 'O', 'l', 'x', 'X'}
		return put(string([]byte{cands[rapid.IntRange(0, len(cands)-1).Draw(t, label+"Byte")]})), kind
	case "embedded-0x-inserted":
		// the characters "0x" appear again INSIDE the string (not as its prefix)
		at := 1 + pos
		if at > len(body) {
			at = len(body)
		}
		return pre + body[:at] + "0x" + body[at:], kind
	case "embedded-0x-replacing":
		// two hex digits are overwritten by "0x" (length unchanged)
		at := pos
		if at+2 > len(body) {
			at = len(body) - 2
		}
		if at < 1 && pre == "" {
			at = 1 // at position 0 without a prefix it would BE a prefix
		}
		return pre + body[:at] + "0x" + body[at+2:], kind
	case "odd-length":
		return pre + body[:len(body)-1], kind
	case "rune-g":
		return put("g"), kind
	case "rune-space":
		return put(" "), kind
	case "rune-dash":
		return put("-"), kind
	case "rune-multibyte":
		return put("é"), kind
	case "rune-nul":
		return put("\x00"), kind
	case "0x0x-prefix":
		return "0x0x" + body, kind
	case "leading-space":
		return " " + s, kind
	case "trailing-newline":
		return s + "\n", kind
	case "0x-odd":
		return "0x" + body + "a", kind
	default:
		return "x" + body, kind
	}
}

// hexLikeMsg draws a message; a JavaScript caller's messages are often text, and text may itself look like the
// hex arguments (start with "0x", be all hex digits) without being one: the wrappers must not interpret it.
func hexLikeMsg(t *rapid.T) []byte {
	m := pu.Msg(100).Draw(t, "msg")
	switch rapid.IntRange(0, 8).Draw(t, "msgShape") {
	case 0:
		return append([]byte("0x"), m...)
	case 1:
		return []byte("0x" + hex.EncodeToString(m))
	case 2:
		return []byte("0x")
	case 3:
		return []byte(hex.EncodeToString(m))
	case 4:
		return []byte{} // the empty message (an omitted JavaScript argument looks the same)
	}
	return m
}

type dkey struct {
	d  *dilithium.Dilithium
	pk [dilithium.CryptoPublicKeyBytes]byte
}

func TestWrappers(t *testing.T) {
	r := ev.New(t, prop, "TestWrappers")
	r.Rule("rapid draws a wrapper function, a validity class (valid / one bit flipped / other message / other key; address first byte over all 256 values; descriptors that make the core refuse), a hex rendering (lower/upper/mixed, each of signature and public key independently with or without 0x) or ONE non-hex edit (odd length, foreign rune at a drawn position, fullwidth forms of the hex digits, 0X, 0x0x, whitespace...); oracle wrapper == core on my own decoding of the strings; non-trivial = core answers true or the input is one bit from such a case, or each 0x placement; distinct by (function, prefix pattern, class)")
	// pools
	var dk []dkey
	for i := 0; i < 3; i++ {
		d, err := dilithium.NewDilithiumFromSeed(pu.Arr48(pu.DetBytes(r.SubSeed("dil")+uint64(i), 48)))
		r.Health(err == nil, "dilithium keygen: %v", err)
		dk = append(dk, dkey{d, d.GetPK()})
	}
	type xkey struct {
		ref *xmssref.Key
		pk  []byte
		hf  xmss.HashFunction
	}
	var xk []xkey
	for i, hf := range pu.Hashes {
		ref := xmssref.NewKey(pu.DetBytes(r.SubSeed("xmss")+uint64(i), 48), 4, pu.RefHash(hf))
		xk = append(xk, xkey{ref, pu.RefPK(ref, hf), hf})
	}
	checks := r.PerShard(r.Pick(6000, 150000))
	r.Rapid(t, "wrap", checks, func(rt *rapid.T) {
		c := &wcase{Func: rapid.SampledFrom([]string{"DilithiumVerify", "DilithiumVerify", "GetDilithiumAddressFromPK", "IsValidDilithiumAddress", "XMSSVerify", "XMSSVerify", "GetXMSSAddressFromPK", "IsValidXMSSAddress"}).Draw(rt, "func")}
		nonHex := rapid.IntRange(0, 3).Draw(rt, "nonHex") == 0
		validity := rapid.SampledFrom([]string{"valid", "valid", "sig-bit-flipped", "other-message", "other-key"}).Draw(rt, "validity")
		var sig, pk, addr []byte
		switch c.Func {
		case "DilithiumVerify":
			k := dk[rapid.IntRange(0, len(dk)-1).Draw(rt, "key")]
			c.Msg = hexLikeMsg(rt)
			s, err := k.d.Sign(c.Msg)
			r.Health(err == nil, "sign: %v", err)
			sig, pk = s[:], k.pk[:]
			switch validity {
			case "sig-bit-flipped":
				sig = append([]byte{}, sig...)
				bit := rapid.IntRange(0, len(sig)*8-1).Draw(rt, "bit")
				sig[bit/8] ^= 1 << uint(bit%8)
			case "other-message":
				c.Msg = append(append([]byte{}, c.Msg...), 7)
			case "other-key":
				o := dk[(rapid.IntRange(0, len(dk)-1).Draw(rt, "key2"))].pk
				pk = o[:]
			}
		case "GetDilithiumAddressFromPK":
			k := dk[rapid.IntRange(0, len(dk)-1).Draw(rt, "key")]
			pk = k.pk[:]
			if validity != "valid" {
				pk = pu.DetBytes(rapid.Uint64().Draw(rt, "rndpk"), dilithium.CryptoPublicKeyBytes)
			}
		case "IsValidDilithiumAddress", "IsValidXMSSAddress":
			addr = pu.DetBytes(rapid.Uint64().Draw(rt, "addr"), 20)
			addr[0] = rapid.Byte().Draw(rt, "first")
			if rapid.Bool().Draw(rt, "xmssLike") {
				addr[1] = byte(rapid.IntRange(0, 15).Draw(rt, "hn")) // address format nibble 0
			}
			validity = fmt.Sprintf("first-byte-%02x", addr[0])
		case "XMSSVerify":
			k := xk[rapid.IntRange(0, len(xk)-1).Draw(rt, "key")]
			c.Msg = hexLikeMsg(rt)
			idx := uint32(rapid.IntRange(0, 15).Draw(rt, "idx"))
			sig, pk = k.ref.Sign(idx, c.Msg), k.pk
			switch validity {
			case "sig-bit-flipped":
				bit := rapid.IntRange(0, len(sig)*8-1).Draw(rt, "bit")
				sig[bit/8] ^= 1 << uint(bit%8)
			case "other-message":
				if rapid.Bool().Draw(rt, "prefixOnly") {
					c.Msg = append([]byte("0x"), c.Msg...) // differs from the signed message only by a leading "0x"
				} else {
					c.Msg = append(append([]byte{}, c.Msg...), 7)
				}
			case "other-key":
				pk = xk[rapid.IntRange(0, len(xk)-1).Draw(rt, "key2")].pk
			}
			if rapid.IntRange(0, 3).Draw(rt, "tall") == 0 && validity != "other-key" {
				// a triple that satisfies the verification equation for a drawn height 4..30 (built without a tree)
				h := 2 * rapid.IntRange(2, 15).Draw(rt, "h/2")
				hf := rapid.IntRange(0, 2).Draw(rt, "fabHash")
				fi := uint32(rapid.Uint64Range(0, uint64(1)<<uint(h)-1).Draw(rt, "fabIdx"))
				mat := pu.DetBytes(rapid.Uint64().Draw(rt, "fabMat"), 96+32*h)
				sibs := make([][]byte, h)
				for l := range sibs {
					sibs[l] = mat[96+32*l : 128+32*l]
				}
				signed := c.Msg
				if validity == "other-message" {
					signed = append([]byte("signed:"), c.Msg...)
				}
				fsig, root := xmssref.Fabricate(xmssref.Hash(hf), h, fi, signed, mat[0:32], mat[32:64], mat[64:96], sibs, -1)
				sig = fsig
				pk = append(append([]byte{byte(hf), byte(h / 2), 0}, root...), mat[32:64]...)
				if validity == "sig-bit-flipped" {
					bit := rapid.IntRange(0, len(sig)*8-1).Draw(rt, "fabBit")
					sig[bit/8] ^= 1 << uint(bit%8)
				}
				validity += fmt.Sprintf("+height-%d", h)
			}
			if rapid.IntRange(0, 5).Draw(rt, "uninterpreted") == 0 {
				// descriptor bits the core verifier does not interpret (address-format nibble, reserved byte):
				// whatever the core answers for such a key, the wrapper must answer the same
				pk = append([]byte{}, pk...)
				if rapid.Bool().Draw(rt, "afNibble") {
					pk[1] |= byte(rapid.IntRange(1, 15).Draw(rt, "af")) << 4
				} else {
					pk[2] = byte(rapid.IntRange(1, 255).Draw(rt, "reserved"))
				}
				validity += "+uninterpreted-descriptor-bits"
			}
			if rapid.IntRange(0, 9).Draw(rt, "coreRefuses") == 0 {
				pk = append([]byte{}, pk...)
				pk[0] |= byte(rapid.IntRange(1, 15).Draw(rt, "sigType")) << 4 // core: "invalid signature type"
				validity = "descriptor-core-refuses"
			}
		case "GetXMSSAddressFromPK":
			k := xk[rapid.IntRange(0, len(xk)-1).Draw(rt, "key")]
			pk = append([]byte{}, k.pk...)
			if validity != "valid" {
				pk[0] = rapid.Byte().Draw(rt, "d0")
				pk[1] = byte(rapid.IntRange(0, 15).Draw(rt, "hn"))
				if rapid.IntRange(0, 4).Draw(rt, "badFormat") == 0 {
					pk[1] |= byte(rapid.IntRange(1, 15).Draw(rt, "af")) << 4 // core: "Address format type not supported"
					validity = "descriptor-core-refuses"
				}
			}
		}
		c.Class = validity
		spoilt := ""
		if sig != nil {
			c.Sig = render(rt, sig, "sig")
		}
		if pk != nil {
			c.PK = render(rt, pk, "pk")
		}
		if addr != nil {
			c.Addr = render(rt, addr, "addr")
		}
		if nonHex {
			// spoil exactly one of the string arguments
			var targets []*string
			for _, p := range []*string{&c.Sig, &c.PK, &c.Addr} {
				if *p != "" {
					targets = append(targets, p)
				}
			}
			p := targets[rapid.IntRange(0, len(targets)-1).Draw(rt, "target")]
			*p, spoilt = spoil(rt, *p, "spoil")
			c.Class += " non-hex:" + spoilt
		}
		key, msg, scope := judge(c)
		r.Eval(1)
		r.Count("scope_"+scope, 1)
		r.Count("func_"+c.Func, 1)
		if !nonHex {
			r.Count("prefix_"+c.Func+"_"+prefixPattern(c), 1)
		}
		if scope == "hex-core-true" || validity == "sig-bit-flipped" || scope == "hex-core-refuses" || scope == "non-hex" {
			r.NonTrivial(c.Func, prefixPattern(c), c.Class, []byte(c.Msg), c.Addr)
		}
		r.Sample(map[string]any{"func": c.Func, "class": c.Class, "sig": short(c.Sig), "pk": short(c.PK), "addr": c.Addr, "scope": scope})
		r.Check(rt, key == "", key, c, "%s", msg)
	})
}

func short(s string) string {
	if len(s) > 40 {
		return fmt.Sprintf("%s…(%d chars)", s[:40], len(s))
	}
	return s
}
