// C05 — Dilithium: Verify is strict - only canonical, in-range signatures pass.
// Oracle: dilithium.Verify == dilref.Verify; a-priori "must reject" for every crafted class;
// Open returns nothing whenever Verify is false and the message when it is true; never a panic.
package c05

import (
	"bytes"
	"encoding/json"
	"fmt"
	"testing"

	"github.com/theQRL/go-qrllib/dilithium"
	"pgregory.net/rapid"
	"verifharness/ev"
	"verifharness/pu"
	"verifharness/ref/dilref"
)

const prop = "C05"

func TestMain(m *testing.M) {
	ev.Main(m, prop, []ev.Job{
		{Test: "TestCrafted", Quick: 16, Thorough: 16},
		{Test: "TestFlipSweep", Quick: 8, Thorough: 16},
		{Test: "TestColdVerify", Quick: 2, Thorough: 2},
	})
}

func TestReplay(t *testing.T)  { ev.StdReplay(t, prop) }
func TestRegress(t *testing.T) { ev.StdRegress(t, prop) }

type triple struct {
	Class  string `json:"class"`
	Detail string `json:"detail"`
	Expect string `json:"expect"` // accept | reject | agree
	Msg    pu.HB  `json:"msg"`
	Sig    pu.HB  `json:"sig"`
	PK     pu.HB  `json:"pk"`
	// UseRef: consult the reference verifier (always for replays)
	UseRef bool `json:"-"`
}

// sharedPK models a caller that keeps ONE public-key array and overwrites it in place between verifications.
var sharedPK = new([dilithium.CryptoPublicKeyBytes]byte)

func judge(r *ev.Recorder, c *triple) (string, string) {
	var sig [dilithium.CryptoBytes]byte
	pkp := sharedPK
	copy(sig[:], c.Sig)
	copy(pkp[:], c.PK)
	pk := *pkp
	_ = pk
	msg0, pk0 := append([]byte{}, c.Msg...), pk
	var lib bool
	if o := ev.Try(func() { lib = dilithium.Verify(c.Msg, sig, pkp) }); o.Panicked {
		return c.Class + "/verify-panics", fmt.Sprintf("%s: Verify raised %s", c.Detail, o)
	}
	sm := append(append([]byte{}, c.Sig...), c.Msg...)
	sm0 := append([]byte{}, sm...)
	var opened []byte
	if o := ev.Try(func() { opened = dilithium.Open(sm, pkp) }); o.Panicked {
		return c.Class + "/open-panics", fmt.Sprintf("%s: Open raised %s", c.Detail, o)
	}
	r.Eval(1)
	if !bytes.Equal(msg0, c.Msg) || pk0 != *pkp || !bytes.Equal(sm0, sm) {
		return c.Class + "/input-modified", c.Detail + ": Verify/Open modified an input buffer"
	}
	if lib {
		if !bytes.Equal(opened, c.Msg) || opened == nil { // nil is Open's answer for "invalid", also for an empty message
			return c.Class + "/open-disagrees", fmt.Sprintf("%s: Verify is true but Open returned %d bytes (message has %d)", c.Detail, len(opened), len(c.Msg))
		}
	} else if len(opened) != 0 {
		return c.Class + "/open-returns-for-invalid", fmt.Sprintf("%s: Verify is false but Open returned %d bytes", c.Detail, len(opened))
	}
	if c.Expect == "reject" && lib {
		return c.Class + "/accepts-invalid", c.Detail + ": library ACCEPTS a signature that is invalid by construction"
	}
	if c.UseRef || c.Expect != "reject" {
		spec := dilref.Verify(c.PK, c.Msg, c.Sig)
		r.Count("reference_verifier_consulted", 1)
		if c.Expect == "reject" && spec {
			return "HARNESS", c.Detail + ": reference verifier accepts a case built to be invalid"
		}
		if c.Expect == "accept" && !spec {
			return "HARNESS", c.Detail + ": reference verifier rejects a case built to be valid"
		}
		if lib != spec {
			if lib {
				return c.Class + "/accepts-invalid", c.Detail + ": library accepts, specification-level verifier rejects"
			}
			return c.Class + "/rejects-valid", c.Detail + ": specification-level verifier accepts, library rejects"
		}
	}
	if lib {
		r.Count("accepted", 1)
	} else {
		r.Count("rejected", 1)
	}
	return "", ""
}

func report(tb ev.TB, r *ev.Recorder, c *triple) {
	key, msg := judge(r, c)
	if key == "HARNESS" {
		r.Health(false, "%s", msg)
	}
	r.Check(tb, key == "", key, c, "%s", msg)
}

func init() {
	f := func(t *testing.T, r *ev.Recorder, raw json.RawMessage) {
		var c triple
		if err := json.Unmarshal(raw, &c); err != nil {
			t.Fatalf("HARNESS-HEALTH: %v", err)
		}
		c.UseRef = true
		report(t, r, &c)
	}
	ev.Register("TestCrafted", f)
	ev.Register("TestFlipSweep", f)
	ev.Register("TestColdVerify", f)
}

// ---- helpers on the signature layout: c~ (32) | z (7 x 640) | hint positions (75) | counts (8) ----

const (
	offZ    = 32
	offHint = 32 + 7*640
	offCnt  = offHint + 75
)

func hintRows(sig []byte) (rows [][]byte, ok bool) {
	k := 0
	for i := 0; i < 8; i++ {
		e := int(sig[offCnt+i])
		if e < k || e > 75 {
			return nil, false
		}
		rows = append(rows, append([]byte{}, sig[offHint+k:offHint+e]...))
		k = e
	}
	return rows, true
}

func putRows(sig []byte, rows [][]byte) []byte {
	o := append([]byte{}, sig...)
	for i := offHint; i < offCnt+8; i++ {
		o[i] = 0
	}
	k := 0
	for i, row := range rows {
		for _, b := range row {
			if k < 75 {
				o[offHint+k] = b
			}
			k++
		}
		o[offCnt+i] = byte(k)
	}
	return o
}

func setZ(sig []byte, poly, coeff int, v int64) []byte {
	o := append([]byte{}, sig...)
	t := uint32(dilref.Gamma1 - v) // 20-bit lane
	base := offZ + 640*poly + (coeff/2)*5
	if coeff%2 == 0 {
		o[base] = byte(t)
		o[base+1] = byte(t >> 8)
		o[base+2] = o[base+2]&0xf0 | byte(t>>16)&0x0f
	} else {
		o[base+2] = o[base+2]&0x0f | byte(t<<4)
		o[base+3] = byte(t >> 4)
		o[base+4] = byte(t >> 12)
	}
	return o
}

func flip(b []byte, bit int) []byte {
	o := append([]byte{}, b...)
	o[bit/8] ^= 1 << uint(bit%8)
	return o
}

type keyEnt struct {
	seed []byte
	ref  *dilref.Keys
	d    *dilithium.Dilithium
}

func pool(r *ev.Recorder, n int) []keyEnt {
	var ks []keyEnt
	for i := 0; i < n; i++ {
		seed := pu.DetBytes(r.SubSeed("key")+uint64(i), 48)
		if i == 0 {
			seed = make([]byte, 48)
		}
		d, err := pu.DilKey(seed)
		r.Health(err == nil, "keygen %v", err)
		ks = append(ks, keyEnt{seed, pu.DilRef(seed), d})
	}
	return ks
}

// emptyRowSig returns, for pool key ki, a message whose HONEST signature has an empty hint row after a non-empty one
// (about one signature in 200 has; found once per process by signing counter messages with the library).
var emptyRowCache = map[int][2][]byte{}

func emptyRowSig(ki int, k keyEnt) (msg, sig []byte, row int) {
	find := func(sig []byte) int {
		rows, ok := hintRows(sig)
		if !ok {
			return -1
		}
		seen := false
		for i, r := range rows {
			if len(r) > 0 {
				seen = true
			} else if seen {
				return i
			}
		}
		return -1
	}
	if e, ok := emptyRowCache[ki]; ok {
		return e[0], e[1], find(e[1])
	}
	for n := 0; n < 4000; n++ {
		m := []byte(fmt.Sprintf("empty-row-search-%d", n))
		s, err := k.d.Sign(m)
		if err != nil {
			return nil, nil, -1
		}
		if r := find(s[:]); r >= 0 {
			emptyRowCache[ki] = [2][]byte{m, append([]byte{}, s[:]...)}
			return m, emptyRowCache[ki][1], r
		}
	}
	return nil, nil, -1
}

// rareShapes: honest signatures of pool key 0 whose hint section has a shape that is canonical but uncommon (one in
// 200 .. 1000 signatures): found once per process by signing counter messages with the library, then presented as
// VALID cases (a decoder that is a little too strict rejects exactly these).
var rareShapeCache map[string][2][]byte

func rareShapes(k keyEnt) map[string][2][]byte {
	if rareShapeCache != nil {
		return rareShapeCache
	}
	rareShapeCache = map[string][2][]byte{}
	want := []string{"empty-row-after-non-empty", "first-row-empty", "row-starts-where-previous-row-ended", "position-255-in-a-row-of-several", "position-0-and-255-present"}
	for n := 0; n < 3000 && len(rareShapeCache) < len(want); n++ {
		m := []byte(fmt.Sprintf("rare-hint-shape-search-%d", n))
		s, err := k.d.Sign(m)
		if err != nil {
			break
		}
		rows, ok := hintRows(s[:])
		if !ok {
			continue
		}
		shapes := map[string]bool{}
		seen, has0, has255 := false, false, false
		var prevLast = -1
		for i, r := range rows {
			if len(r) == 0 {
				if seen {
					shapes["empty-row-after-non-empty"] = true
				} else if i == 0 {
					shapes["first-row-empty"] = true
				}
				continue
			}
			seen = true
			if int(r[0]) == prevLast {
				shapes["row-starts-where-previous-row-ended"] = true
			}
			prevLast = int(r[len(r)-1])
			if len(r) > 1 && r[len(r)-1] == 255 {
				shapes["position-255-in-a-row-of-several"] = true
			}
			has0 = has0 || r[0] == 0
			has255 = has255 || r[len(r)-1] == 255
		}
		if has0 && has255 {
			shapes["position-0-and-255-present"] = true
		}
		for sh := range shapes {
			if _, done := rareShapeCache[sh]; !done {
				rareShapeCache[sh] = [2][]byte{m, append([]byte{}, s[:]...)}
			}
		}
	}
	return rareShapeCache
}

var craftKinds = []string{"valid", "valid-ref-signed", "dishonest-z", "dishonest-z", "dishonest-r0", "dishonest-challenge-byte", "dishonest-challenge-byte", "hint-after-255", "hint-swap", "hint-duplicate", "hint-padding", "hint-padding-pair", "hint-count-over", "hint-count-decreasing", "hint-count-into-padding", "hint-count-chain",
	"other-message", "other-key", "z-set-extreme", "garbage", "garbage-keep-hints", "challenge-last-byte", "challenge-seed-hungry", "zero-response-honest-hints", "hint-empty-row-count-zeroed", "valid-rare-hint-shape", "valid-rare-hint-shape"}

func TestCrafted(t *testing.T) {
	r := ev.New(t, prop, "TestCrafted")
	r.Rule("rapid draws a key (pool of 4), a message and ONE crafted class: honest signatures, also ones whose hint section has a canonical but uncommon shape (an empty row, a row that starts at the position where the previous one ended, position 255 in a row of several; searched once per process), signatures from a DISHONEST reference signer holding the secret key that skips exactly one signing-side check (z-norm: everything the verifier recomputes matches, only the norm check can stop it; r0; hint count) or transmits a challenge differing in one byte from the honest one while using it consistently (only the final challenge comparison can stop it - every byte position is drawn), hint-encoding surgery that preserves the decoded hint set (swap, duplicate, non-zero padding, counts over 75 / decreasing / reaching into the padding / the count byte of an empty row lowered), other message / key, a challenge seed whose expansion consumes 97..102 stream bytes, a zero response / zero t1 under honest hints (hinted coefficients with low part exactly 0), a z coefficient forced to +-(gamma1-beta-1), +-(gamma1-beta), -gamma1+1, gamma1, garbage; oracle Verify_lib == Verify_spec, a-priori reject, Open consistent; non-trivial = passes all verifier-side conditions but one, or differs from a valid signature by one edit; distinct by (class, key, message, position)")
	ks := pool(r, 4)
	checks := r.PerShard(r.Pick(3200, 80000))
	r.Rapid(t, "craft", checks, func(rt *rapid.T) {
		ki := rapid.IntRange(0, len(ks)-1).Draw(rt, "key")
		k := ks[ki]
		msg := pu.Msg(200).Draw(rt, "msg")
		kind := rapid.SampledFrom(craftKinds).Draw(rt, "class")
		c := &triple{Class: kind, Expect: "reject", Msg: msg, PK: k.ref.PK, UseRef: true}
		honest := func() []byte {
			s, err := k.d.Sign(msg)
			if err != nil {
				rt.Fatalf("sign: %v", err)
			}
			return s[:]
		}
		detail := ""
		switch kind {
		case "valid":
			c.Sig, c.Expect = honest(), "accept"
		case "valid-ref-signed":
			c.Sig, _ = k.ref.Sign(msg, "")
			c.Expect = "accept"
		case "dishonest-z", "dishonest-r0", "dishonest-hints":
			which := kind[len("dishonest-"):]
			sig, trace := k.ref.Sign(msg, which)
			if sig == nil {
				r.Count("dishonest_"+which+"_not_found_within_2000_attempts", 1)
				c.Sig, c.Expect, c.Class = honest(), "accept", "valid"
				break
			}
			c.Sig = sig
			a := trace[len(trace)-1]
			detail = fmt.Sprintf("attempt %d: |z|=%d |r0|=%d r1!=w1:%v hints=%d", a.Kappa, a.ZNorm, a.R0Norm, a.R1Mismatch, a.Hints)
			if which == "r0" {
				c.Expect = "agree" // no verifier-side r0 condition: the specification decides
			}
			if a.ZNorm == dilref.Gamma1-dilref.Beta {
				r.Count("dishonest_z_exactly_at_bound", 1)
			}
		case "dishonest-challenge-byte":
			pos, x := rapid.IntRange(0, 31).Draw(rt, "byte"), rapid.SampledFrom([]int{1, 2, 0x10, 0x80, 0xff}).Draw(rt, "xor")
			sig, _ := k.ref.Sign(msg, fmt.Sprintf("ctweak=%d:%d", pos, x))
			if sig == nil {
				c.Sig, c.Expect, c.Class = honest(), "accept", "valid"
				break
			}
			c.Sig = sig
			detail = fmt.Sprintf("signer transmits a challenge that differs from H(mu||w1) in byte %d (xor %#02x) and uses it consistently: z, norms and hints are all in order, w1 is reconstructed exactly", pos, x)
		case "hint-after-255":
			// a polynomial whose hint run ends at position 255 gets MORE position bytes after it (counts bumped):
			// same decoded set if they repeat earlier positions, never canonical
			s := honest()
			rows, ok := hintRows(s)
			r.Health(ok, "honest signature has malformed hints")
			total := 0
			cand := -1
			for i, row := range rows {
				total += len(row)
				if len(row) > 0 && row[len(row)-1] == 255 {
					cand = i
				}
			}
			if cand < 0 || total >= 75 {
				r.Count("hint_after_255_not_applicable", 1)
				c.Sig, c.Expect, c.Class = s, "accept", "valid"
				break
			}
			extra := byte(rapid.SampledFrom([]int{255, 0, 1, 128, 254}).Draw(rt, "extra"))
			if rapid.Bool().Draw(rt, "repeatEarlier") {
				extra = rows[cand][rapid.IntRange(0, len(rows[cand])-1).Draw(rt, "which")]
			}
			rows[cand] = append(rows[cand], extra)
			c.Sig = putRows(s, rows)
			detail = fmt.Sprintf("row %d ends at position 255 and is followed by one more position byte (%d)", cand, extra)
		case "hint-swap", "hint-duplicate", "hint-padding", "hint-padding-pair", "hint-count-over", "hint-count-decreasing", "hint-count-into-padding":
			s := honest()
			rows, ok := hintRows(s)
			r.Health(ok, "honest signature has malformed hints")
			total := 0
			for _, row := range rows {
				total += len(row)
			}
			switch kind {
			case "hint-swap":
				var cand []int
				for i, row := range rows {
					if len(row) >= 2 {
						cand = append(cand, i)
					}
				}
				if len(cand) == 0 {
					c.Sig, c.Expect, c.Class = s, "accept", "valid"
					break
				}
				i := cand[rapid.IntRange(0, len(cand)-1).Draw(rt, "row")]
				a := rapid.IntRange(0, len(rows[i])-2).Draw(rt, "a")
				b := rapid.IntRange(a+1, len(rows[i])-1).Draw(rt, "b")
				rows[i][a], rows[i][b] = rows[i][b], rows[i][a]
				c.Sig = putRows(s, rows)
				detail = fmt.Sprintf("row %d positions %d,%d swapped (same hint set)", i, a, b)
			case "hint-duplicate":
				var cand []int
				for i, row := range rows {
					if len(row) >= 1 {
						cand = append(cand, i)
					}
				}
				if len(cand) == 0 || total >= 75 {
					c.Sig, c.Expect, c.Class = s, "accept", "valid"
					break
				}
				i := cand[rapid.IntRange(0, len(cand)-1).Draw(rt, "row")]
				a := rapid.IntRange(0, len(rows[i])-1).Draw(rt, "a")
				row := append([]byte{}, rows[i][:a+1]...)
				row = append(row, rows[i][a:]...)
				rows[i] = row
				c.Sig = putRows(s, rows)
				detail = fmt.Sprintf("row %d index %d duplicated (same hint set)", i, rows[i][a])
			case "hint-padding":
				if total >= 75 {
					c.Sig, c.Expect, c.Class = s, "accept", "valid"
					break
				}
				p := rapid.IntRange(total, 74).Draw(rt, "pad")
				o := append([]byte{}, s...)
				o[offHint+p] = byte(rapid.IntRange(1, 255).Draw(rt, "v"))
				c.Sig = o
				detail = fmt.Sprintf("padding byte %d set to %d", p, o[offHint+p])
			case "hint-padding-pair":
				if total > 72 {
					c.Sig, c.Expect, c.Class = s, "accept", "valid"
					break
				}
				a := rapid.IntRange(total, 73).Draw(rt, "p1")
				b := rapid.IntRange(a+1, 74).Draw(rt, "p2")
				v := byte(rapid.IntRange(1, 255).Draw(rt, "v"))
				o := append([]byte{}, s...)
				o[offHint+a], o[offHint+b] = v, byte(256-int(v))
				c.Sig = o
				detail = fmt.Sprintf("padding bytes %d,%d set to %#02x,%#02x (sum 0 mod 256)", a, b, v, byte(256-int(v)))
			case "hint-count-over":
				o := append([]byte{}, s...)
				row := rapid.IntRange(0, 7).Draw(rt, "row")
				o[offCnt+row] = byte(rapid.IntRange(76, 255).Draw(rt, "v"))
				c.Sig = o
				detail = fmt.Sprintf("count byte %d = %d", row, o[offCnt+row])
			case "hint-count-decreasing":
				o := append([]byte{}, s...)
				row := rapid.IntRange(1, 7).Draw(rt, "row")
				if o[offCnt+row-1] == 0 {
					c.Sig, c.Expect, c.Class = s, "accept", "valid"
					break
				}
				o[offCnt+row] = byte(rapid.IntRange(0, int(o[offCnt+row-1])-1).Draw(rt, "v"))
				c.Sig = o
				detail = fmt.Sprintf("count byte %d lowered below its predecessor", row)
			case "hint-count-into-padding":
				if total >= 75 {
					c.Sig, c.Expect, c.Class = s, "accept", "valid"
					break
				}
				o := append([]byte{}, s...)
				o[offCnt+7] = byte(total + rapid.IntRange(1, 75-total).Draw(rt, "extra"))
				c.Sig = o
				detail = fmt.Sprintf("last count raised from %d to %d: positions are read from the zero padding", total, o[offCnt+7])
			}
		case "hint-count-chain":
			row := rapid.IntRange(0, 7).Draw(rt, "row")
			v := byte(rapid.IntRange(76, 255).Draw(rt, "v"))
			c.Sig = pu.HintChain(honest(), row, v, rapid.Uint64().Draw(rt, "chain"))
			detail = fmt.Sprintf("row %d claims %d positions; position bytes and the count bytes form one strictly increasing chain", row, v)
		case "other-message":
			c.Sig = honest()
			c.Msg = append(append([]byte{}, msg...), byte(rapid.IntRange(0, 255).Draw(rt, "b")))
		case "other-key":
			c.Sig = honest()
			c.PK = ks[(ki+1+rapid.IntRange(0, len(ks)-2).Draw(rt, "k2"))%len(ks)].ref.PK
		case "z-set-extreme":
			v := rapid.SampledFrom([]int64{dilref.Gamma1 - dilref.Beta - 1, -(dilref.Gamma1 - dilref.Beta - 1), dilref.Gamma1 - dilref.Beta, -(dilref.Gamma1 - dilref.Beta), -dilref.Gamma1 + 1, dilref.Gamma1}).Draw(rt, "v")
			p, q := rapid.IntRange(0, 6).Draw(rt, "poly"), rapid.IntRange(0, 255).Draw(rt, "coeff")
			s := honest()
			c.Sig = setZ(s, p, q, v)
			if bytes.Equal(c.Sig, s) {
				c.Expect, c.Class = "accept", "valid"
			}
			detail = fmt.Sprintf("z[%d][%d] := %d", p, q, v)
		case "garbage":
			c.Sig = pu.DetBytes(rapid.Uint64().Draw(rt, "g"), dilithium.CryptoBytes)
			c.Expect = "agree"
		case "garbage-keep-hints":
			s := honest()
			g := pu.DetBytes(rapid.Uint64().Draw(rt, "g"), dilithium.CryptoBytes)
			copy(g[offHint:], s[offHint:])
			c.Sig = g
			c.Expect = "agree"
		case "valid-rare-hint-shape":
			sh := rapid.SampledFrom([]string{"empty-row-after-non-empty", "first-row-empty", "row-starts-where-previous-row-ended", "position-255-in-a-row-of-several", "position-0-and-255-present"}).Draw(rt, "shape")
			e, ok := rareShapes(ks[0])[sh]
			if !ok {
				r.Count("rare_shape_not_found_"+sh, 1)
				c.Sig, c.Expect, c.Class = honest(), "accept", "valid"
				break
			}
			ki, k = 0, ks[0]
			c.PK, c.Msg, c.Sig, c.Expect = k.ref.PK, e[0], e[1], "accept"
			detail = "honest signature whose hint section has the shape: " + sh
		case "hint-empty-row-count-zeroed":
			// an honest signature with an EMPTY hint row after a non-empty one: its count byte repeats the previous count.
			// Writing 0 (or any smaller value) there gives a second byte string for the same hint set - not canonical
			m, s, row := emptyRowSig(ki, k)
			if row < 0 {
				c.Sig, c.Expect, c.Class = honest(), "accept", "valid"
				break
			}
			o := append([]byte{}, s...)
			prev := int(o[offCnt+row])
			if rapid.Bool().Draw(rt, "zero") {
				o[offCnt+row] = 0
			} else {
				o[offCnt+row] = byte(rapid.IntRange(0, prev-1).Draw(rt, "smaller"))
			}
			c.Msg, c.Sig = m, o
			detail = fmt.Sprintf("row %d is empty; its count byte %d replaced by %d", row, prev, o[offCnt+row])
		case "zero-response-honest-hints":
			// z = 0 and / or t1 = 0 under the honest hint section: w' is exactly 0 (or full of exact zeros), so hinted
			// coefficients have low part 0 - the one operand class of the hint rule honest signatures almost never meet
			o := append([]byte{}, honest()...)
			how := rapid.IntRange(0, 2).Draw(rt, "how")
			if how != 1 {
				for i := offZ; i < offHint; i += 5 {
					copy(o[i:i+5], []byte{0x00, 0x00, 0x08, 0x00, 0x80})
				}
			}
			if how != 0 {
				np := append([]byte{}, k.ref.PK...)
				for i := 32; i < len(np); i++ {
					np[i] = 0
				}
				c.PK = np
			}
			c.Sig, c.Expect = o, "agree"
			detail = fmt.Sprintf("zero response: %v, zero t1: %v", how != 1, how != 0)
		case "challenge-seed-hungry":
			// the challenge seed replaced by one whose expansion consumes unusually many stream bytes
			s := honest()
			o := append([]byte{}, s...)
			cs, nb := pu.HungryChallengeSeed(rapid.IntRange(0, len(pu.HungryChallengeSeeds)-1).Draw(rt, "which"))
			copy(o, cs)
			c.Sig = o
			detail = fmt.Sprintf("c~ := a seed whose expansion consumes %d stream bytes", nb)
		case "challenge-last-byte":
			// a signature whose challenge differs from the honest one only in its last byte
			s := honest()
			o := append([]byte{}, s...)
			o[31] ^= byte(rapid.IntRange(1, 255).Draw(rt, "x"))
			c.Sig = o
			detail = "last byte of c~ changed"
		}
		c.Detail = fmt.Sprintf("key %d, %d-byte message, %s %s", ki, len(c.Msg), c.Class, detail)
		r.Count("class_"+c.Class, 1)
		r.NonTrivial(c.Class, ki, []byte(c.Msg), detail)
		r.Sample(map[string]any{"class": c.Class, "detail": c.Detail, "expect": c.Expect})
		report(rt, r, c)
	})
}

// TestColdVerify: a fresh process whose first library call is a verification (Verify in one shard, Open in the
// other) of a triple produced entirely by the reference model: nothing has generated a key or signed before.
func TestColdVerify(t *testing.T) {
	r := ev.New(t, prop, "TestColdVerify")
	r.Rule("fresh process: the first library call is dilithium.Verify (shard 0) / Open (shard 1) on a reference-made triple, then on its one-bit-flipped variants; non-trivial = the first call of the process and the flips, distinct by shard and bit")
	k := pu.DilRef(pu.DetBytes(r.Seed()*13+uint64(r.Shard()), 48))
	msg := pu.DetBytes(r.Seed()+5, 40+r.Shard())
	sig, _ := k.Sign(msg, "")
	report(t, r, &triple{Class: "cold-valid", Detail: "first library call of the process", Expect: "accept", Msg: msg, Sig: sig, PK: k.PK, UseRef: true})
	r.NonTrivialEnum(1)
	for i := 0; i < 64; i++ {
		bit := (i*577 + int(r.Seed())) % (len(sig) * 8)
		report(t, r, &triple{Class: "cold-flip-sig", Detail: fmt.Sprintf("sig bit %d", bit), Expect: "reject", Msg: msg, Sig: flip(sig, bit), PK: k.PK})
		r.NonTrivialEnum(1)
	}
	r.Sample(map[string]any{"first_call": []string{"Verify", "Open"}[r.Shard()%2], "msg_len": len(msg)})
}

func TestFlipSweep(t *testing.T) {
	r := ev.New(t, prop, "TestFlipSweep")
	r.Rule("enumerated single-bit flips of honest (msg,sig,pk): quick = all 256 bits of c~, for each of the 7 z polynomials one flip in each of the 20 bit lanes plus 20 drawn bits, EVERY bit of the 83 hint bytes, 2000 drawn public-key bits; thorough = ALL 36760 signature bits and ALL 20736 public-key bits for each base signature; every flip must be rejected (a-priori) and Open must return nothing; the reference verifier is consulted on every 16th flip; non-trivial = one bit away from a valid signature, distinct by (base,field,bit)")
	ks := pool(r, 3)
	nb := r.Pick(8, 8)
	for bi := 0; bi < nb; bi++ {
		if !r.Thorough() && !r.Mine(bi) {
			continue
		}
		k := ks[bi%len(ks)]
		msg := pu.DetBytes(r.SubSeed("msg")+uint64(bi), pu.MsgLens[(bi*5)%len(pu.MsgLens)])
		s, err := k.d.Sign(msg)
		r.Health(err == nil, "sign %v", err)
		sig := s[:]
		if r.Mine(bi) {
			report(t, r, &triple{Class: "valid", Detail: fmt.Sprintf("base %d", bi), Expect: "accept", Msg: msg, Sig: sig, PK: k.ref.PK, UseRef: true})
		}
		var sigBits, pkBits []int
		if r.Thorough() {
			for b := 0; b < len(sig)*8; b++ {
				if r.Mine(b) {
					sigBits = append(sigBits, b)
				}
			}
			for b := 0; b < len(k.ref.PK)*8; b++ {
				if r.Mine(b) {
					pkBits = append(pkBits, b)
				}
			}
		} else {
			x := r.SubSeed("bits") + uint64(bi)
			next := func(n int) int { x ^= x << 13; x ^= x >> 7; x ^= x << 17; return int(x % uint64(n)) }
			for b := 0; b < 256; b++ {
				sigBits = append(sigBits, b)
			}
			for p := 0; p < 7; p++ {
				for lane := 0; lane < 20; lane++ {
					coeff := next(256)
					sigBits = append(sigBits, (offZ+640*p)*8+coeff*20+lane)
				}
				for n := 0; n < 20; n++ {
					sigBits = append(sigBits, (offZ+640*p)*8+next(640*8))
				}
			}
			for b := offHint * 8; b < len(sig)*8; b++ {
				sigBits = append(sigBits, b)
			}
			for n := 0; n < 2000; n++ {
				pkBits = append(pkBits, next(len(k.ref.PK)*8))
			}
		}
		for n, b := range sigBits {
			region := "c~"
			switch {
			case b >= offCnt*8:
				region = "hint-counts"
			case b >= offHint*8:
				region = "hint-positions"
			case b >= offZ*8:
				region = fmt.Sprintf("z[%d]", (b/8-offZ)/640)
			}
			report(t, r, &triple{Class: "flip-sig", Detail: fmt.Sprintf("base %d sig bit %d (%s)", bi, b, region), Expect: "reject", Msg: msg, Sig: flip(sig, b), PK: k.ref.PK, UseRef: n%16 == 0})
			r.Count("flip_"+regionClass(region), 1)
		}
		for n, b := range pkBits {
			region := "t1"
			if b < 256 {
				region = "rho"
			}
			report(t, r, &triple{Class: "flip-pk", Detail: fmt.Sprintf("base %d pk bit %d (%s)", bi, b, region), Expect: "reject", Msg: msg, Sig: sig, PK: flip(k.ref.PK, b), UseRef: n%16 == 0})
			r.Count("flip_pk_"+region, 1)
		}
		r.NonTrivialEnum(len(sigBits) + len(pkBits))
		r.Sample(map[string]any{"base": bi, "msg": pu.Short(msg), "sig_bits_flipped": len(sigBits), "pk_bits_flipped": len(pkBits)})
	}
	if r.Thorough() {
		r.Exhaustive("all 36760 signature bits and all 20736 public-key bits of each of the 8 base signatures")
	} else {
		r.Exhaustive("all 256 challenge bits and all 664 hint-section bits of each base signature")
	}
}

func regionClass(s string) string {
	if s[0] == 'z' {
		return "z"
	}
	return s
}
