package c05

import (
	"encoding/json"
	"fmt"
	"os"
	"path/filepath"
	"testing"

	"verifharness/ev"
	"verifharness/pu"
	"verifharness/ref/dilref"
)

// TestHunt is a tool (not in the job table): from the C07 boundary inputs whose reference trace has an
// attempt with |z| exactly gamma1-beta it builds, with the dishonest reference signer, signatures whose
// ONLY defect is that norm, and saves them as C05 regress triples (VERIF_HUNT_SRC -> VERIF_HUNT_DIR).
func TestHunt(t *testing.T) {
	src, dir := os.Getenv("VERIF_HUNT_SRC"), os.Getenv("VERIF_HUNT_DIR")
	if src == "" || dir == "" {
		t.Skip("VERIF_HUNT_SRC / VERIF_HUNT_DIR not set")
	}
	os.MkdirAll(dir, 0o755)
	files, _ := filepath.Glob(filepath.Join(src, "boundary-z__bound-*.json"))
	n := 0
	for _, f := range files {
		b, _ := os.ReadFile(f)
		var rep ev.Replay
		var c struct {
			Seed pu.HB   `json:"seed"`
			Msgs []pu.HB `json:"msgs"`
		}
		if json.Unmarshal(b, &rep) != nil || json.Unmarshal(rep.Case, &c) != nil {
			continue
		}
		k := pu.DilRef(c.Seed)
		_, trace := k.Sign(c.Msgs[0], "")
		for _, a := range trace {
			onlyZ := a.ZNorm == dilref.Gamma1-dilref.Beta && a.R0Norm < dilref.Gamma2-dilref.Beta && !a.R1Mismatch && a.CT0Norm < dilref.Gamma2 && a.Hints <= dilref.Omega
			if !onlyZ {
				continue
			}
			sig, _ := k.Sign(c.Msgs[0], fmt.Sprintf("kappa=%d", a.Kappa))
			if sig == nil {
				continue
			}
			tr := triple{Class: "dishonest-z-exactly-at-bound", Expect: "reject", Msg: c.Msgs[0], Sig: sig, PK: k.PK,
				Detail: fmt.Sprintf("dishonest signer, attempt %d: |z| = gamma1-beta = %d exactly, every other condition holds", a.Kappa, a.ZNorm)}
			out := ev.Replay{Property: prop, Test: "TestCrafted", Key: "dishonest-z-exactly-at-bound", Message: "regress input"}
			out.Case, _ = json.Marshal(&tr)
			ob, _ := json.MarshalIndent(out, "", " ")
			os.WriteFile(filepath.Join(dir, fmt.Sprintf("z-exactly-at-bound-%02d.json", n)), ob, 0o644)
			n++
		}
	}
	t.Logf("wrote %d triples", n)
}
