// C04 — XMSS: Verify accepts exactly what the scheme defines as valid.
// Oracle: lib accepts => spec accepts on everything; spec accepts => lib accepts whenever the
// descriptor is pristine; plus a-priori "must reject" for every mutator that breaks validity.
package c04

import (
	"encoding/binary"
	"encoding/json"
	"fmt"
	"testing"

	"github.com/theQRL/go-qrllib/xmss"
	"pgregory.net/rapid"
	"verifharness/ev"
	"verifharness/pu"
	"verifharness/ref/xmssref"
)

const prop = "C04"

func TestMain(m *testing.M) {
	ev.Main(m, prop, []ev.Job{
		{Test: "TestFlipSweep", Quick: 12, Thorough: 16},
		{Test: "TestMutators", Quick: 8, Thorough: 16},
		{Test: "TestFabricated", Quick: 4, Thorough: 8},
		{Test: "TestHostileDescriptors", Quick: 2, Thorough: 4},
	})
}

func TestReplay(t *testing.T)  { ev.StdReplay(t, prop) }
func TestRegress(t *testing.T) { ev.StdRegress(t, prop) }

// triple is the self-contained replayable case: the final inputs plus what is expected.
type triple struct {
	Class  string `json:"class"`
	Detail string `json:"detail"`
	// Expect: "accept" (valid by construction), "reject" (invalid a priori), "agree" (only lib<=>spec),
	// "sound" (only lib accepts => spec accepts: uninterpreted descriptor bits)
	Expect string `json:"expect"`
	Msg    pu.HB  `json:"msg"`
	Sig    pu.HB  `json:"sig"`
	PK     pu.HB  `json:"pk"`
	// W: Winternitz parameter the triple is made for and verified with (0 = 16 = plain Verify); 4 and 256 go
	// through VerifyWithCustomWOTSParamW only
	W uint32 `json:"w,omitempty"`
}

// specVerifyW is pu.SpecXMSSVerify for w in {4,256}: same descriptor rules, signature length for that w, reference
// verifier with the RFC 8391 formulas instantiated for that w.
func specVerifyW(w uint32, msg, sig, pk []byte) bool {
	if len(pk) != 67 {
		return false
	}
	hash, sigType, height := uint(pk[0]&0xf), uint(pk[0]>>4), int(pk[1]&0xf)*2
	if sigType != 0 || hash > 2 || height < 4 || height > 30 {
		return false
	}
	p := xmssref.ParamsFor(int(w))
	if len(sig) != xmssref.SigLenW(p, height) {
		return false
	}
	return xmssref.VerifyW(p, xmssref.Hash(hash), height, pk[3:35], pk[35:67], msg, sig)
}

// judgeW is judge for a triple made for w = 4 or 256.
func judgeW(r *ev.Recorder, c *triple) (string, string) {
	var epk [67]byte
	copy(epk[:], c.PK)
	gMsg, okMsg := pu.Guard(c.Msg)
	gSig, okSig := pu.Guard(c.Sig)
	var lib bool
	out := ev.Try(func() { lib = xmss.VerifyWithCustomWOTSParamW(gMsg, gSig, epk, c.W) })
	lib = lib && !out.Panicked
	r.Eval(1)
	if !okMsg() || !okSig() {
		return c.Class + "/input-modified", c.Detail + ": VerifyWithCustomWOTSParamW wrote into a caller's slice or the spare capacity behind it"
	}
	if out.Panicked && !out.IsString {
		return c.Class + "/non-string-panic", fmt.Sprintf("%s: VerifyWithCustomWOTSParamW(%d) raised %s", c.Detail, c.W, out)
	}
	spec := specVerifyW(c.W, c.Msg, c.Sig, c.PK)
	if lib && !spec {
		return c.Class + "/accepts-invalid", fmt.Sprintf("%s: library ACCEPTS with w=%d, specification-level verifier rejects", c.Detail, c.W)
	}
	switch c.Expect {
	case "accept":
		if !spec {
			return "HARNESS", c.Detail + ": reference rejects a triple that is valid by construction"
		}
		if !lib {
			return c.Class + "/rejects-valid", fmt.Sprintf("%s: library does not accept a valid w=%d triple (%s)", c.Detail, c.W, out)
		}
	case "reject":
		if spec {
			return "HARNESS", c.Detail + ": reference accepts a triple that is invalid by construction"
		}
	}
	// the same bytes handed to plain Verify (w = 16): the length cannot be a w=16 length for the declared height
	if acc, o := pu.LibXMSSVerify(c.Msg, c.Sig, c.PK); acc || (o.Panicked && !o.IsString) {
		return c.Class + "/w16-accepts-other-w", fmt.Sprintf("%s: plain Verify on a w=%d signature: accepted=%v %s", c.Detail, c.W, acc, o)
	}
	r.Count(fmt.Sprintf("w%d_lib_accepts_%v", c.W, lib), 1)
	return "", ""
}

// judge runs the library and the reference on one triple. Returns ("","") if fine.
func judge(r *ev.Recorder, c *triple) (string, string) {
	if c.W != 0 && c.W != 16 {
		return judgeW(r, c)
	}
	msg0, sig0, pk0 := append([]byte{}, c.Msg...), append([]byte{}, c.Sig...), append([]byte{}, c.PK...)
	gMsg, okMsg := pu.Guard(c.Msg)
	gSig, okSig := pu.Guard(c.Sig)
	if len(c.Msg)%2 == 0 {
		// signature and message as adjacent sub-slices of ONE buffer (how a parsed transaction hands them over):
		// the signature slice's capacity runs over the message
		whole, ok := pu.Guard(append(append([]byte{}, c.Sig...), c.Msg...))
		gSig, gMsg = whole[:len(c.Sig)], whole[len(c.Sig):]
		okMsg, okSig = ok, ok
	}
	lib, out := pu.LibXMSSVerify(gMsg, gSig, c.PK)
	r.Eval(1)
	if !okMsg() || !okSig() {
		return c.Class + "/input-modified", c.Detail + ": Verify wrote into a caller's slice or the spare capacity behind it"
	}
	if out.Panicked && !out.IsString {
		return c.Class + "/non-string-panic", fmt.Sprintf("%s: xmss.Verify raised %s", c.Detail, out)
	}
	if string(msg0) != string(c.Msg) || string(sig0) != string(c.Sig) || string(pk0) != string(c.PK) {
		return c.Class + "/input-modified", c.Detail + ": Verify modified its input buffers"
	}
	// Verify == VerifyWithCustomWOTSParamW(16)
	var epk [67]byte
	copy(epk[:], c.PK)
	var lib16 bool
	o16 := ev.Try(func() { lib16 = xmss.VerifyWithCustomWOTSParamW(c.Msg, c.Sig, epk, 16) })
	if (lib16 && !o16.Panicked) != lib || o16.Panicked != out.Panicked {
		return c.Class + "/w16-disagree", fmt.Sprintf("%s: Verify=%v(%s) VerifyWithCustomWOTSParamW(16)=%v(%s)", c.Detail, lib, out, lib16, o16)
	}
	spec := pu.SpecXMSSVerify(c.Msg, c.Sig, c.PK)
	if lib && !spec {
		return c.Class + "/accepts-invalid", fmt.Sprintf("%s: library ACCEPTS, specification-level verifier rejects (pk descriptor %x, sig len %d)", c.Detail, c.PK[:3], len(c.Sig))
	}
	switch c.Expect {
	case "accept":
		if !spec {
			return "HARNESS", c.Detail + ": reference rejects a triple that is valid by construction"
		}
		if !lib {
			return c.Class + "/rejects-valid", fmt.Sprintf("%s: library does not accept a valid triple (%s)", c.Detail, out)
		}
	case "reject":
		if spec {
			return "HARNESS", c.Detail + ": reference accepts a triple that is invalid by construction"
		}
		if lib {
			return c.Class + "/accepts-invalid", c.Detail + ": library ACCEPTS a triple that is invalid by construction"
		}
	case "agree":
		if spec && !lib {
			return c.Class + "/rejects-valid", fmt.Sprintf("%s: specification-level verifier accepts, library does not (%s)", c.Detail, out)
		}
	case "sound":
		// only lib => spec, checked above
	}
	if lib {
		r.Count("lib_accepts", 1)
	} else if out.Panicked {
		r.Count("lib_refuses_with:"+out.Text, 1)
	} else {
		r.Count("lib_returns_false", 1)
	}
	return "", ""
}

func report(tb ev.TB, r *ev.Recorder, c *triple) {
	key, msg := judge(r, c)
	if key == "HARNESS" {
		r.Health(false, "%s", msg)
	}
	r.Check(tb, key == "", key, c, "%s", msg)
}

func init() {
	f := func(t *testing.T, r *ev.Recorder, raw json.RawMessage) {
		var c triple
		if err := json.Unmarshal(raw, &c); err != nil {
			t.Fatalf("HARNESS-HEALTH: %v", err)
		}
		report(t, r, &c)
	}
	for _, n := range []string{"TestFlipSweep", "TestMutators", "TestFabricated", "TestHostileDescriptors"} {
		ev.Register(n, f)
	}
}

// ---- base triples from real keys ----

type base struct {
	hf   xmss.HashFunction
	h    int
	ref  *xmssref.Key
	seed []byte
	pk   []byte
}

var baseCache = map[string]*base{}

func getBase(seed []byte, h int, hf xmss.HashFunction) *base {
	k := fmt.Sprintf("%x/%d/%d", seed, h, hf)
	if b, ok := baseCache[k]; ok {
		return b
	}
	ref := xmssref.NewKey(seed, h, pu.RefHash(hf))
	b := &base{hf: hf, h: h, ref: ref, seed: seed, pk: pu.RefPK(ref, hf)}
	baseCache[k] = b
	return b
}

// honest signature: from the library (SetIndex + Sign) or from the reference signer
func (b *base) sign(idx uint32, msg []byte, useLib bool) []byte {
	if useLib {
		x := pu.NewXMSS(b.seed, b.h, b.hf)
		x.SetIndex(idx)
		s, err := x.Sign(msg)
		if err != nil {
			panic(err)
		}
		return s
	}
	return b.ref.Sign(idx, msg)
}

func flip(b []byte, bit int) []byte {
	o := append([]byte{}, b...)
	o[bit/8] ^= 1 << uint(bit%8)
	return o
}

func sigRegion(bit, h int) string {
	by := bit / 8
	switch {
	case by < 4:
		return "index"
	case by < 36:
		return "R"
	case by < 36+67*32:
		return fmt.Sprintf("wots[%d]", (by-36)/32)
	default:
		return fmt.Sprintf("auth[%d]", (by-2180)/32)
	}
}

// ---- TestFlipSweep: enumerated single-bit flips of sig, msg and pk on valid triples ----

func TestFlipSweep(t *testing.T) {
	r := ev.New(t, prop, "TestFlipSweep")
	r.Rule("valid triples from real keys (3 hashes x h in {4,6}; h=8 thorough) at seed-derived indices; enumerated single-bit flips: quick = all 32 index bits, 24 bits of R, 2 bits in EACH of the 67 WOTS blocks and EACH authentication node, every bit of a short message, all 524 interpreted pk bits + the 12 uninterpreted ones; thorough = ALL signature bits. Each flip must be refused by the library and by the reference verifier. non-trivial = a triple one bit away from a valid one, distinct by (hash,h,field,bit)")
	type job struct {
		hf xmss.HashFunction
		h  int
		n  int
	}
	var jobs []job
	for _, hf := range pu.Hashes {
		for _, h := range []int{4, 6} {
			for n := 0; n < 2; n++ {
				jobs = append(jobs, job{hf, h, n})
			}
		}
		if r.Thorough() {
			jobs = append(jobs, job{hf, 8, 0})
		}
	}
	// thorough: split every job's signature bits across all shards; quick: one job per shard
	blocksHit := map[string]bool{}
	for ji, jb := range jobs {
		if !r.Thorough() && !r.Mine(ji) {
			continue
		}
		seed := pu.DetBytes(r.Seed()*977+uint64(ji)+11, 48)
		b := getBase(seed, jb.h, jb.hf)
		idx := uint32((r.Seed()*31 + uint64(ji)*7) % uint64(1<<uint(jb.h)))
		msg := pu.DetBytes(r.Seed()+uint64(ji)*13+5, 5+ji%4)
		sig := b.sign(idx, msg, ji%2 == 0)
		tag := fmt.Sprintf("%s h=%d idx=%d", pu.HashName(jb.hf), jb.h, idx)
		if r.Mine(ji) {
			report(t, r, &triple{Class: "valid", Detail: tag, Expect: "accept", Msg: msg, Sig: sig, PK: b.pk})
		}
		nbits := len(sig) * 8
		var bits []int
		if r.Thorough() {
			for bit := 0; bit < nbits; bit++ {
				if r.Mine(bit) {
					bits = append(bits, bit)
				}
			}
		} else {
			for bit := 0; bit < 32; bit++ {
				bits = append(bits, bit)
			}
			x := r.Seed()*0x9e37 + uint64(ji)
			next := func(n int) int { x ^= x << 13; x ^= x >> 7; x ^= x << 17; return int(x % uint64(n)) }
			for k := 0; k < 24; k++ {
				bits = append(bits, 32+next(256))
			}
			for blk := 0; blk < 67+jb.h; blk++ {
				for k := 0; k < 2; k++ {
					bits = append(bits, (36+blk*32)*8+next(256))
				}
			}
		}
		for _, bit := range bits {
			reg := sigRegion(bit, jb.h)
			blocksHit[fmt.Sprintf("%d/%s", ji, reg)] = true
			report(t, r, &triple{Class: "flip-sig", Detail: fmt.Sprintf("%s sig bit %d (%s)", tag, bit, reg), Expect: "reject", Msg: msg, Sig: flip(sig, bit), PK: b.pk})
			r.NonTrivial("sig", jb.hf, jb.h, ji, bit)
			r.Count("flip_sig_"+regionClass(reg), 1)
		}
		if !r.Mine(ji) {
			continue
		}
		if !r.Thorough() {
			// generator health: every WOTS block and auth node was hit
			for blk := 0; blk < 67; blk++ {
				r.Health(blocksHit[fmt.Sprintf("%d/wots[%d]", ji, blk)], "WOTS block %d not hit", blk)
			}
			for l := 0; l < jb.h; l++ {
				r.Health(blocksHit[fmt.Sprintf("%d/auth[%d]", ji, l)], "auth node %d not hit", l)
			}
		}
		for bit := 0; bit < len(msg)*8; bit++ {
			report(t, r, &triple{Class: "flip-msg", Detail: fmt.Sprintf("%s msg bit %d", tag, bit), Expect: "reject", Msg: flip(msg, bit), Sig: sig, PK: b.pk})
			r.NonTrivial("msg", jb.hf, jb.h, ji, bit)
			r.Count("flip_msg", 1)
		}
		for bit := 0; bit < 67*8; bit++ {
			by := bit / 8
			interp := by == 0 || (by == 1 && bit%8 < 4) || by >= 3
			exp, cls := "reject", "flip-pk-interpreted"
			if !interp {
				exp, cls = "sound", "flip-pk-uninterpreted"
			}
			report(t, r, &triple{Class: cls, Detail: fmt.Sprintf("%s pk bit %d (byte %d)", tag, bit, by), Expect: exp, Msg: msg, Sig: sig, PK: flip(b.pk, bit)})
			r.NonTrivial("pk", jb.hf, jb.h, ji, bit)
			r.Count(cls, 1)
		}
		r.Sample(map[string]any{"base": tag, "msg": pu.Short(msg), "sig_bits_flipped": len(bits), "pk_bits_flipped": 536})
	}
	if r.Thorough() {
		r.Exhaustive("all single-bit flips of the signature for each base triple (3 hashes x {h=4 x2, h=6 x2, h=8})")
	}
	r.Exhaustive("all 536 single-bit flips of the 67-byte public key and all bits of the (short) message for each base triple")
}

func regionClass(reg string) string {
	switch reg[0] {
	case 'i':
		return "index"
	case 'R':
		return "R"
	case 'w':
		return "wots"
	}
	return "auth"
}

// ---- TestMutators: rapid-drawn structured corruptions ----

var mutKinds = []string{"valid", "msg-other", "msg-append", "msg-truncate", "msg-tail-flip", "msg-tail-flip", "flip-sig", "other-key", "other-key-same-seed-other-hash",
	"other-index-rewritten", "auth-of-other-index", "index-plus-2^h", "index-high-bits", "truncate-32", "extend-32", "pad-to-other-height",
	"resplit-sig-msg", "resplit-sig-msg", "pk-field-in-signature", "pk-field-in-signature", "swap-wots-blocks", "zero-wots-block", "advance-wots-chain", "garbage", "root-pubseed-swapped", "sig-for-other-height-key"}

func TestMutators(t *testing.T) {
	r := ev.New(t, prop, "TestMutators")
	r.Rule("rapid draws a real key (pool of 3 seeds x 3 hashes x h in {4,6}), an index, a message (1 in 6 of them 4 KiB .. 70 KB long) and ONE named mutator (the genuine triple is verified first; 1 in 4 cases are preceded by a verification with another Winternitz parameter at the same height) (other message, the same bytes re-split between signature and message, a bit flipped in the message's tail, transplanted signature/auth path/index, wrong height or length, swapped/zeroed/advanced WOTS chain, garbage, ...); oracle lib<=>spec plus a-priori reject; non-trivial = derived from a valid triple by exactly one mutator (or valid), distinct by (hash,h,mutator,index,detail)")
	pool := [][]byte{make([]byte, 48), pu.DetBytes(r.SubSeed("pool-1"), 48), pu.DetBytes(r.SubSeed("pool-2"), 48)}
	checks := r.PerShard(r.Pick(1600, 40000))
	r.Rapid(t, "mut", checks, func(rt *rapid.T) {
		hf := rapid.SampledFrom(pu.Hashes).Draw(rt, "hash")
		h := rapid.SampledFrom([]int{4, 6}).Draw(rt, "h")
		si := rapid.IntRange(0, len(pool)-1).Draw(rt, "seed")
		b := getBase(pool[si], h, hf)
		last := uint32(1)<<uint(h) - 1
		idx := uint32(rapid.IntRange(0, int(last)).Draw(rt, "idx"))
		msg := pu.Msg(300).Draw(rt, "msg")
		if rapid.IntRange(0, 5).Draw(rt, "long") == 0 {
			msg = pu.DetBytes(rapid.Uint64().Draw(rt, "longContent"), rapid.SampledFrom(pu.LongMsgLens).Draw(rt, "longLen"))
			r.Count("long_messages", 1)
		}
		useLib := rapid.IntRange(0, 7).Draw(rt, "signer") == 0
		sig := b.sign(idx, msg, useLib)
		kind := rapid.SampledFrom(mutKinds).Draw(rt, "mutator")
		c := &triple{Class: kind, Expect: "reject", Msg: msg, Sig: sig, PK: b.pk}
		tag := fmt.Sprintf("%s h=%d idx=%d", pu.HashName(hf), h, idx)
		detail := ""
		switch kind {
		case "valid":
			c.Expect = "accept"
		case "msg-other":
			m2 := pu.Msg(300).Draw(rt, "msg2")
			if string(m2) == string(msg) {
				m2 = append(m2, 1)
			}
			c.Msg = m2
		case "msg-append":
			c.Msg = append(append([]byte{}, msg...), rapid.Byte().Draw(rt, "b"))
		case "msg-truncate":
			if len(msg) == 0 {
				c.Msg = []byte{0}
			} else {
				c.Msg = msg[:len(msg)-1]
			}
		case "msg-tail-flip":
			if len(msg) == 0 {
				c.Msg = []byte{0}
			} else {
				tail := len(msg)
				if tail > 128 {
					tail = 128
				}
				pos := len(msg) - 1 - rapid.IntRange(0, tail-1).Draw(rt, "fromEnd")
				c.Msg = flip(msg, pos*8+rapid.IntRange(0, 7).Draw(rt, "bit"))
				detail = fmt.Sprintf("message bit flipped at byte %d of %d", pos, len(msg))
			}
		case "pk-field-in-signature":
			// a forger knows the public key: its root / public seed are copied into a signature slot (R, a WOTS
			// block, an authentication node - the LAST one in half of the cases), the rest is the genuine signature
			// or filler, and the index field gets bits at and around the tree height set
			s := append([]byte{}, sig...)
			if rapid.Bool().Draw(rt, "filler") {
				copy(s[4:], pu.DetBytes(rapid.Uint64().Draw(rt, "fill"), len(s)-4))
			}
			field := b.pk[3:35]
			if rapid.IntRange(0, 3).Draw(rt, "seedNotRoot") == 0 {
				field = b.pk[35:67]
			}
			slot := len(s) - 32
			switch rapid.IntRange(0, 3).Draw(rt, "slot") {
			case 0:
				slot = 4
			case 1:
				slot = 36 + 32*rapid.IntRange(0, 66).Draw(rt, "block")
			case 2:
				slot = 2180 + 32*rapid.IntRange(0, h-1).Draw(rt, "node")
			}
			copy(s[slot:], field)
			hi := uint32(rapid.IntRange(1, 7).Draw(rt, "highBits")) << uint(h-1) // bits h-1, h, h+1
			binary.BigEndian.PutUint32(s, idx|hi|uint32(rapid.IntRange(0, 1).Draw(rt, "top"))<<31)
			c.Sig = s
			detail = fmt.Sprintf("pk field copied to signature offset %d, index field %#x", slot, binary.BigEndian.Uint32(s))
		case "resplit-sig-msg":
			// the SAME bytes, split differently: the head of the message is moved onto the end of the signature
			// (or the tail of the signature onto the front of the message)
			if len(msg) >= 32 && rapid.Bool().Draw(rt, "msgToSig") {
				k := 32 * rapid.IntRange(1, len(msg)/32).Draw(rt, "blocks")
				c.Sig = append(append([]byte{}, sig...), msg[:k]...)
				c.Msg = msg[k:]
				detail = fmt.Sprintf("%d message bytes moved to the end of the signature", k)
			} else {
				k := 32 * rapid.IntRange(1, h).Draw(rt, "blocks")
				c.Msg = append(append([]byte{}, sig[len(sig)-k:]...), msg...)
				c.Sig = sig[:len(sig)-k]
				detail = fmt.Sprintf("%d signature bytes moved to the front of the message", k)
			}
		case "flip-sig":
			bit := rapid.IntRange(0, len(sig)*8-1).Draw(rt, "bit")
			c.Sig = flip(sig, bit)
			detail = fmt.Sprintf("bit %d (%s)", bit, sigRegion(bit, h))
		case "other-key":
			sj := (si + 1 + rapid.IntRange(0, 1).Draw(rt, "otherSeed")) % len(pool)
			c.Sig = getBase(pool[sj], h, hf).sign(idx, msg, false)
		case "other-key-same-seed-other-hash":
			hf2 := pu.Hashes[(int(hf)+1+rapid.IntRange(0, 1).Draw(rt, "otherHash"))%3]
			c.Sig = getBase(pool[si], h, hf2).sign(idx, msg, false)
		case "other-index-rewritten":
			j := (idx + 1 + uint32(rapid.IntRange(0, int(last)-1).Draw(rt, "j"))) % (last + 1)
			s := b.sign(j, msg, false)
			binary.BigEndian.PutUint32(s, idx)
			c.Sig = s
			detail = fmt.Sprintf("signature made at %d, index field rewritten", j)
		case "auth-of-other-index":
			j := (idx + 1 + uint32(rapid.IntRange(0, int(last)-1).Draw(rt, "j"))) % (last + 1)
			s := append([]byte{}, sig...)
			copy(s[2180:], b.ref.AuthPath(j))
			// sibling indices share the upper part of the path: make sure something changed
			if string(s) == string(sig) {
				s[2180] ^= 1
			}
			c.Sig = s
			detail = fmt.Sprintf("auth path of %d", j)
		case "index-plus-2^h":
			s := append([]byte{}, sig...)
			binary.BigEndian.PutUint32(s, idx+(1<<uint(h)))
			c.Sig = s
		case "index-high-bits":
			s := append([]byte{}, sig...)
			s[rapid.IntRange(0, 2).Draw(rt, "byte")] ^= byte(rapid.IntRange(1, 255).Draw(rt, "x"))
			if binary.BigEndian.Uint32(s) == idx { // byte 2 xor could only touch bits above h for small h; ensure a change
				s[0] ^= 0x80
			}
			c.Sig = s
		case "truncate-32":
			c.Sig = sig[:len(sig)-32]
		case "extend-32":
			c.Sig = append(append([]byte{}, sig...), make([]byte, 32)...)
		case "pad-to-other-height":
			// signature re-sized to the other height's length, presented under the own pk and under a pk whose height nibble was adjusted
			oh := 10 - h // 4<->6
			s := append([]byte{}, sig...)
			if oh > h {
				s = append(s, pu.DetBytes(uint64(idx)+1, 32*(oh-h))...)
			} else {
				s = s[:len(s)-32*(h-oh)]
			}
			c.Sig = s
			if rapid.Bool().Draw(rt, "adjustPK") {
				p := append([]byte{}, b.pk...)
				p[1] = byte(oh / 2)
				c.PK = p
				detail = "pk height nibble adjusted to match"
			}
		case "swap-wots-blocks":
			i := rapid.IntRange(0, 66).Draw(rt, "i")
			j := (i + 1 + rapid.IntRange(0, 65).Draw(rt, "j")) % 67
			s := append([]byte{}, sig...)
			copy(s[36+32*i:36+32*i+32], sig[36+32*j:36+32*j+32])
			copy(s[36+32*j:36+32*j+32], sig[36+32*i:36+32*i+32])
			c.Sig = s
			detail = fmt.Sprintf("blocks %d,%d", i, j)
		case "zero-wots-block":
			i := rapid.IntRange(0, 66).Draw(rt, "i")
			s := append([]byte{}, sig...)
			for k := 0; k < 32; k++ {
				s[36+32*i+k] = 0
			}
			c.Sig = s
			detail = fmt.Sprintf("block %d", i)
		case "advance-wots-chain":
			// replace the whole WOTS part by the signature of ANOTHER message at the same index (one-time key reuse shape)
			m2 := append(append([]byte{}, msg...), 0x55)
			s2 := b.sign(idx, m2, false)
			i := rapid.IntRange(0, 66).Draw(rt, "i")
			s := append([]byte{}, sig...)
			copy(s[36+32*i:36+32*i+32], s2[36+32*i:36+32*i+32])
			if string(s) == string(sig) {
				s[36+32*i] ^= 1
			}
			c.Sig = s
			detail = fmt.Sprintf("block %d taken from a signature of another message at the same index", i)
		case "garbage":
			c.Sig = pu.DetBytes(rapid.Uint64().Draw(rt, "g"), len(sig))
			if rapid.Bool().Draw(rt, "keepIdx") {
				copy(c.Sig, sig[:4])
			}
		case "root-pubseed-swapped":
			p := append([]byte{}, b.pk[:3]...)
			p = append(p, b.pk[35:67]...)
			p = append(p, b.pk[3:35]...)
			c.PK = p
		case "sig-for-other-height-key":
			oh := 10 - h
			c.PK = getBase(pool[si], oh, hf).pk
			detail = fmt.Sprintf("verified under the h=%d key of the same seed", oh)
		}
		c.Detail = tag + " " + kind + " " + detail
		r.Count("mutator_"+kind, 1)
		// history: the GENUINE triple is verified first (a verifier that remembers what it accepted must not be
		// fooled afterwards), sometimes preceded by a verification with another Winternitz parameter at this height
		if rapid.IntRange(0, 3).Draw(rt, "foreignW") == 0 {
			w := rapid.SampledFrom([]uint32{4, 256}).Draw(rt, "w")
			var fpk [67]byte
			fpk[0], fpk[1] = byte(hf), byte(h/2)
			base := map[uint32]int{4: 4 + 32 + 133*32, 256: 4 + 32 + 34*32}[w]
			ev.Try(func() { xmss.VerifyWithCustomWOTSParamW(msg, make([]byte, base+32*h), fpk, w) })
			r.Count("preceded_by_foreign_w_verification", 1)
		}
		if kind != "valid" {
			report(rt, r, &triple{Class: "valid-before-mutation", Detail: tag + " genuine triple", Expect: "accept", Msg: msg, Sig: sig, PK: b.pk})
		}
		r.NonTrivial(uint(hf), h, kind, idx, si, detail, []byte(c.Msg))
		r.Sample(map[string]any{"class": kind, "detail": c.Detail, "msg": pu.Short(c.Msg), "expect": c.Expect})
		report(rt, r, c)
	})
}

// ---- TestFabricated: spec-valid triples for every height 4..30 and large indices ----

func TestFabricated(t *testing.T) {
	r := ev.New(t, prop, "TestFabricated")
	r.Rule("triples that satisfy the verification equation by construction for EVERY supported height 4..30 and indices up to 2^h-1 (WOTS key at the index derived from drawn key material, arbitrary authentication siblings, root = what the path hashes to; no tree is built): the library must accept them, and must reject each after one drawn corruption; consistent triples for the non-existent heights 0 and 2 must not be accepted; the same for Winternitz parameters 4 and 256 through VerifyWithCustomWOTSParamW (reference = the RFC 8391 parameter and checksum formulas instantiated for that w), including a flipped bit in a checksum chain and the one-bit-off root; non-trivial = every case (heights 10..30 are unreachable with real keys), distinct by (hash,h,index,variant)")
	checks := r.PerShard(r.Pick(500, 12000))
	r.Rapid(t, "fab", checks, func(rt *rapid.T) {
		hf := rapid.SampledFrom(pu.Hashes).Draw(rt, "hash")
		h := 2 * rapid.IntRange(2, 15).Draw(rt, "h/2")
		last := uint32(1)<<uint(h) - 1
		var idx uint32
		switch rapid.IntRange(0, 4).Draw(rt, "idxKind") {
		case 0:
			idx = 0
		case 1:
			idx = last
		case 2:
			idx = uint32(1)<<uint(rapid.IntRange(0, h-1).Draw(rt, "bit")) - uint32(rapid.IntRange(0, 1).Draw(rt, "minus"))
		default:
			idx = uint32(rapid.Uint64Range(0, uint64(last)).Draw(rt, "idx"))
		}
		mat := pu.DetBytes(rapid.Uint64().Draw(rt, "material"), 96+32*h)
		msg := pu.Msg(200).Draw(rt, "msg")
		sibs := make([][]byte, h)
		for l := range sibs {
			sibs[l] = mat[96+32*l : 128+32*l]
		}
		sig, root := xmssref.Fabricate(pu.RefHash(hf), h, idx, msg, mat[0:32], mat[32:64], mat[64:96], sibs, -1)
		pk := append([]byte{byte(hf), byte(h / 2), 0}, root...)
		pk = append(pk, mat[32:64]...)
		tag := fmt.Sprintf("fabricated %s h=%d idx=%d", pu.HashName(hf), h, idx)
		c := &triple{Class: "fabricated-valid", Detail: tag, Expect: "accept", Msg: msg, Sig: sig, PK: pk}
		report(rt, r, c)
		r.NonTrivial(uint(hf), h, idx, "valid", []byte(msg))
		r.Count(fmt.Sprintf("height_%02d", h), 1)
		if idx >= 1<<16 {
			r.Count("index>=2^16", 1)
		}
		if idx >= 1<<24 {
			r.Count("index>=2^24", 1)
		}
		// one corruption
		v := rapid.SampledFrom([]string{"flip-sig", "flip-auth-top", "flip-msg", "height-nibble", "hash-nibble", "flip-root", "index-bit"}).Draw(rt, "variant")
		c2 := &triple{Class: "fabricated-" + v, Detail: tag + " " + v, Expect: "reject", Msg: msg, Sig: sig, PK: pk}
		switch v {
		case "flip-sig":
			c2.Sig = flip(sig, rapid.IntRange(0, len(sig)*8-1).Draw(rt, "bit"))
		case "flip-auth-top":
			c2.Sig = flip(sig, (len(sig)-32)*8+rapid.IntRange(0, 255).Draw(rt, "bit"))
		case "flip-msg":
			if len(msg) == 0 {
				c2.Msg = []byte{1}
			} else {
				c2.Msg = flip(msg, rapid.IntRange(0, len(msg)*8-1).Draw(rt, "bit"))
			}
		case "height-nibble":
			p := append([]byte{}, pk...)
			p[1] = byte((h/2 + rapid.IntRange(1, 15).Draw(rt, "d")) % 16)
			c2.PK = p
		case "hash-nibble":
			p := append([]byte{}, pk...)
			p[0] = byte((int(hf) + rapid.IntRange(1, 15).Draw(rt, "d")) % 16)
			c2.PK = p
		case "flip-root":
			c2.PK = flip(pk, 24+rapid.IntRange(0, 255).Draw(rt, "bit"))
		case "index-bit":
			c2.Sig = flip(sig, rapid.IntRange(0, 31).Draw(rt, "bit"))
		}
		report(rt, r, c2)
		r.NonTrivial(uint(hf), h, idx, v, []byte(c2.Sig[:8]), []byte(c2.PK[:3]))
		r.Sample(map[string]any{"detail": tag, "sig_len": len(sig), "corruption": v})
		// "everything but the final comparison": the claimed root differs from the recomputed one in ONE bit
		tb := rapid.IntRange(0, 255).Draw(rt, "tamperBit")
		sig3, root3 := xmssref.Fabricate(pu.RefHash(hf), h, idx, msg, mat[0:32], mat[32:64], mat[64:96], sibs, tb)
		pk3 := append([]byte{byte(hf), byte(h / 2), 0}, root3...)
		pk3 = append(pk3, mat[32:64]...)
		report(rt, r, &triple{Class: "fabricated-root-one-bit-off", Detail: fmt.Sprintf("%s: WOTS chains, L-tree and path all consistent, claimed root differs from the recomputed root in bit %d only", tag, tb), Expect: "reject", Msg: msg, Sig: sig3, PK: pk3})
		r.NonTrivial(uint(hf), h, idx, "root-bit", tb)
		// a triple that is CONSISTENT (chains, L-tree, path and root all fit) for a height the scheme does not have:
		// 2 (a two-level tree; the traversal needs h > 2) and 0 (the root is the leaf). Garbage at these heights is
		// refused by everybody; only a consistent triple shows whether the height itself is refused.
		if rapid.IntRange(0, 3).Draw(rt, "unsupportedHeight") == 0 {
			uh := rapid.SampledFrom([]int{2, 2, 0}).Draw(rt, "uh")
			uidx := uint32(0)
			if uh == 2 {
				uidx = uint32(rapid.IntRange(0, 3).Draw(rt, "uidx"))
			}
			usig, uroot := xmssref.Fabricate(pu.RefHash(hf), uh, uidx, msg, mat[0:32], mat[32:64], mat[64:96], sibs[:uh], -1)
			upk := append(append([]byte{byte(hf), byte(uh / 2), 0}, uroot...), mat[32:64]...)
			report(rt, r, &triple{Class: "fabricated-consistent-at-unsupported-height", Detail: fmt.Sprintf("fabricated %s h=%d idx=%d: everything fits, but the height is not one the scheme has", pu.HashName(hf), uh, uidx), Expect: "reject", Msg: msg, Sig: usig, PK: upk})
			r.NonTrivial(uint(hf), "unsupported-height", uh, uidx, []byte(msg))
			r.Count(fmt.Sprintf("fabricated_unsupported_height_%d", uh), 1)
		}
		// the other two Winternitz parameters the verifier offers (nothing in the library signs with them): a
		// fabricated valid triple, one corruption, and the claimed root one bit off
		w := rapid.SampledFrom([]uint32{4, 256}).Draw(rt, "w")
		wp := xmssref.ParamsFor(int(w))
		sigW, rootW := xmssref.FabricateW(wp, pu.RefHash(hf), h, idx, msg, mat[0:32], mat[32:64], mat[64:96], sibs, -1)
		pkW := append(append([]byte{byte(hf), byte(h / 2), 0}, rootW...), mat[32:64]...)
		tagW := fmt.Sprintf("%s w=%d", tag, w)
		report(rt, r, &triple{Class: "fabricated-valid-other-w", Detail: tagW, Expect: "accept", Msg: msg, Sig: sigW, PK: pkW, W: w})
		cw := &triple{Class: "fabricated-other-w-corrupted", Detail: tagW, Expect: "reject", Msg: msg, Sig: sigW, PK: pkW, W: w}
		switch rapid.IntRange(0, 3).Draw(rt, "wCorruption") {
		case 0:
			// a bit in one of the checksum chains (the last len2 blocks of the WOTS part)
			off := 36 + (wp.Len-1-rapid.IntRange(0, wp.Len2-1).Draw(rt, "csChain"))*32
			cw.Sig = flip(sigW, off*8+rapid.IntRange(0, 255).Draw(rt, "bit"))
			cw.Detail += " bit flipped in a checksum chain block"
		case 1:
			cw.Sig = flip(sigW, rapid.IntRange(0, len(sigW)*8-1).Draw(rt, "bit"))
			cw.Detail += " signature bit flipped"
		case 2:
			if len(msg) == 0 {
				cw.Msg = []byte{1}
			} else {
				cw.Msg = flip(msg, rapid.IntRange(0, len(msg)*8-1).Draw(rt, "bit"))
			}
			cw.Detail += " message bit flipped"
		default:
			s3, r3 := xmssref.FabricateW(wp, pu.RefHash(hf), h, idx, msg, mat[0:32], mat[32:64], mat[64:96], sibs, tb)
			cw.Sig, cw.PK = s3, append(append([]byte{byte(hf), byte(h / 2), 0}, r3...), mat[32:64]...)
			cw.Detail += fmt.Sprintf(" claimed root one bit (%d) off", tb)
		}
		report(rt, r, cw)
		r.NonTrivial(uint(hf), h, idx, "other-w", w, cw.Detail)
		r.Count(fmt.Sprintf("fabricated_w_%d", w), 1)
		r.Count("root_one_bit_off", 1)
	})
	// enumerated: every one of the 256 root bits, one fabricated triple per hash function (h=4)
	for hi, hf := range pu.Hashes {
		mat := pu.DetBytes(r.SubSeed("rootbits")+uint64(hi), 96+32*4)
		sibs := [][]byte{mat[96:128], mat[128:160], mat[160:192], mat[192:224]}
		for tb := 0; tb < 256; tb++ {
			if !r.Mine(tb) {
				continue
			}
			sig, root := xmssref.Fabricate(pu.RefHash(hf), 4, 5, []byte("root bits"), mat[0:32], mat[32:64], mat[64:96], sibs, tb)
			pk := append([]byte{byte(hf), 2, 0}, root...)
			pk = append(pk, mat[32:64]...)
			report(t, r, &triple{Class: "fabricated-root-one-bit-off", Detail: fmt.Sprintf("%s h=4 idx=5: claimed root differs from the recomputed root in bit %d only", pu.HashName(hf), tb), Expect: "reject", Msg: []byte("root bits"), Sig: sig, PK: pk})
			r.NonTrivial("rootbits", hi, tb)
		}
	}
	r.Exhaustive("claimed-root-differs-in-one-bit for each of the 256 root bits x 3 hash functions")
}

// ---- TestHostileDescriptors ----

func TestHostileDescriptors(t *testing.T) {
	r := ev.New(t, prop, "TestHostileDescriptors")
	r.Rule("public keys whose descriptor names an unsupported hash id (3..15), height nibble 0/1, or a non-XMSS signature type, combined with {all-zero, honest, random} roots and {honest, all-zero, random} signatures of every length class; all are invalid a priori and must not be accepted; non-trivial = every case (the verifier must notice the descriptor), distinct by (descriptor, root kind, signature kind, length)")
	b := getBase(pu.DetBytes(r.SubSeed("k"), 48), 4, xmss.SHAKE_128)
	msg := []byte("hostile")
	honest := b.sign(3, msg, false)
	n := 0
	roots := map[string][]byte{"zero-root": make([]byte, 32), "honest-root": b.pk[3:35], "random-root": pu.DetBytes(r.SubSeed("root"), 32), "ff-root": bytesOf(0xff, 32)}
	sigs := func(h int) map[string][]byte {
		l := xmssref.SigLen(h)
		hs := append([]byte{}, honest...)
		if len(hs) < l {
			hs = append(hs, make([]byte, l-len(hs))...)
		}
		return map[string][]byte{"honest-sig": hs[:l], "zero-sig": make([]byte, l), "random-sig": pu.DetBytes(r.SubSeed("sig")+uint64(h), l), "ff-sig": bytesOf(0xff, l)}
	}
	rootNames := []string{"zero-root", "honest-root", "random-root", "ff-root"}
	sigNames := []string{"honest-sig", "zero-sig", "random-sig", "ff-sig"}
	for hashID := 0; hashID < 16; hashID++ {
		for _, hn := range []int{0, 1, 2, 3, 4, 8, 15} { // height nibble
			for sigType := 0; sigType < 16; sigType += 1 {
				if sigType > 1 && hashID%5 != 0 { // thin out the product, keep every hash id with sig types 0/1
					continue
				}
				for _, rn := range rootNames {
					for _, sn := range sigNames {
						n++
						if !r.Mine(n) {
							continue
						}
						h := hn * 2
						invalid := hashID > 2 || hn < 2 || sigType != 0
						lens := []int{h}
						if h < 4 {
							lens = []int{h, 4} // the exact length for the declared height, and the shortest supported one
						}
						for _, sh := range lens {
							sg := sigs(sh)[sn]
							pk := append([]byte{byte(sigType<<4 | hashID), byte(hn), 0}, roots[rn]...)
							pk = append(pk, b.pk[35:67]...)
							exp := "agree"
							if invalid {
								exp = "reject"
							}
							c := &triple{Class: "hostile-descriptor", Expect: exp, Msg: msg, Sig: sg, PK: pk,
								Detail: fmt.Sprintf("hash id %d, height nibble %d, sig type %d, %s, %s (len %d)", hashID, hn, sigType, rn, sn, len(sg))}
							if invalid {
								c.Class = classOf(hashID, hn, sigType) + "/" + rn
							}
							report(t, r, c)
							r.NonTrivial(hashID, hn, sigType, rn, sn, len(sg))
							r.Count(classOf(hashID, hn, sigType), 1)
							if n%97 == 0 {
								r.Sample(map[string]any{"detail": c.Detail, "expect": exp})
							}
						}
					}
				}
			}
		}
	}
}

func classOf(hashID, hn, sigType int) string {
	switch {
	case sigType != 0:
		return "non-xmss-signature-type"
	case hashID > 2:
		return "unsupported-hash-id"
	case hn < 2:
		return "unsupported-height"
	}
	return "supported-descriptor"
}

func bytesOf(b byte, n int) []byte {
	o := make([]byte, n)
	for i := range o {
		o[i] = b
	}
	return o
}
