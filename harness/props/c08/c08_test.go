// C08 — XMSS: a key rebuilt from its seed and index continues identically.
// Observable oracle: the signature streams of the original and of the rebuilt object are
// byte-identical to the end of life. Shortcut (with hooks): identical full-state snapshots at the
// crash index imply it; differing snapshots are NOT reported, the observable comparison decides.
package c08

import (
	"bytes"
	"encoding/json"
	"fmt"
	"testing"

	"github.com/theQRL/go-qrllib/common"
	"github.com/theQRL/go-qrllib/misc"
	"github.com/theQRL/go-qrllib/xmss"
	"verifharness/ev"
	"verifharness/pu"
)

const prop = "C08"

func TestMain(m *testing.M) {
	ev.Main(m, prop, []ev.Job{
		{Test: "TestCrashRebuildReal", Quick: 16, Thorough: 16},
		{Test: "TestCrashRebuildSeam", Quick: 12, Thorough: 16},
	})
}

func TestReplay(t *testing.T)  { ev.StdReplay(t, prop) }
func TestRegress(t *testing.T) { ev.StdRegress(t, prop) }

// hooks (set in the verif-tagged file)
var snapshot func(x *xmss.XMSS) []byte
var seamOn, seamOff func()
var authPath func(x *xmss.XMSS) []byte

type crashCase struct {
	Mode  string `json:"mode"` // "real" or "seam"
	Hash  uint   `json:"hash"`
	H     int    `json:"h"`
	Seed  pu.HB  `json:"seed"`
	Crash uint32 `json:"crash_index"`
	// Way the ORIGINAL reaches the crash index: "sign" (i signatures), "jump" (one SetIndex), "mixed" (signatures and jumps drawn from MixSeed)
	Way     string `json:"way"`
	MixSeed uint64 `json:"mix_seed,omitempty"`
	// Route by which the REBUILT object is created: "seed", "extended-seed", "mnemonic"
	Route string `json:"route"`
	// Force the observable comparison even if snapshots are equal
	Observable bool `json:"observable,omitempty"`
}

func msgAt(seed []byte, j uint32) []byte {
	return pu.DetBytes(uint64(seed[0])<<32+uint64(j)+77, pu.MsgLens[int(j)%len(pu.MsgLens)])
}

func reach(x *xmss.XMSS, c *crashCase) error {
	cur := uint32(0)
	st := c.MixSeed | 1
	next := func(n uint32) uint32 { st ^= st << 13; st ^= st >> 7; st ^= st << 17; return uint32(st>>11) % n }
	for cur < c.Crash {
		switch c.Way {
		case "jump":
			x.SetIndex(c.Crash)
			cur = c.Crash
		case "sign":
			if _, err := x.Sign(msgAt(c.Seed, cur)); err != nil {
				return err
			}
			cur++
		case "jump-then-signs":
			// one jump to just below the crash index, the last 1..3 leaves are consumed by signatures (so the index
			// that the key stores when it "crashes" was written by the signing path, not by SetIndex)
			k := 1 + uint32(c.MixSeed%3)
			if c.Crash > k && cur == 0 {
				cur = c.Crash - k
				x.SetIndex(cur)
			}
			if _, err := x.Sign(msgAt(c.Seed, cur)); err != nil {
				return err
			}
			cur++
		case "mixed+refusals":
			// like mixed, but the caller also makes calls that are refused (too high, rewinds) and carries on
			switch next(4) {
			case 0:
				if _, err := x.Sign(msgAt(c.Seed, cur)); err != nil {
					return err
				}
				cur++
			case 1:
				cur += 1 + next(c.Crash-cur)
				x.SetIndex(cur)
			case 2:
				ev.Try(func() { x.SetIndex(uint32(1)<<uint(c.H) + next(3)) })
			default:
				if cur > 0 {
					ev.Try(func() { x.SetIndex(cur - 1 - next(cur)%2) })
				}
			}
		default: // mixed
			if next(2) == 0 {
				if _, err := x.Sign(msgAt(c.Seed, cur)); err != nil {
					return err
				}
				cur++
			} else {
				cur += 1 + next(c.Crash-cur)
				x.SetIndex(cur)
			}
		}
	}
	if c.Way == "jump" && c.Crash == 0 {
		x.SetIndex(0)
	}
	return nil
}

func rebuild(x *xmss.XMSS, c *crashCase) *xmss.XMSS {
	switch c.Route {
	case "seed":
		return xmss.NewXMSSFromSeed(x.GetSeed(), x.GetHeight(), xmss.HashFunction(c.Hash), common.SHA256_2X)
	case "extended-seed":
		return xmss.NewXMSSFromExtendedSeed(x.GetExtendedSeed())
	default:
		return xmss.NewXMSSFromExtendedSeed(misc.MnemonicToExtendedSeedBin(x.GetMnemonic()))
	}
}

func runCrash(r *ev.Recorder, c *crashCase) (key, msg string) {
	if c.Mode == "seam" {
		if seamOn == nil {
			return "", "" // needs hooks
		}
		seamOn()
		defer seamOff()
	} else if seamOff != nil {
		seamOff()
	}
	hf := xmss.HashFunction(c.Hash)
	tag := fmt.Sprintf("%s hash=%s h=%d crash index %d reached by %s, rebuilt from %s", c.Mode, pu.HashName(hf), c.H, c.Crash, c.Way, c.Route)
	var orig, rb *xmss.XMSS
	var err error
	if o := ev.Try(func() {
		orig = pu.NewXMSS(c.Seed, c.H, hf)
		err = reach(orig, c)
	}); o.Panicked || err != nil {
		return "original/panic", fmt.Sprintf("%s: original could not reach the crash index: %s err=%v", tag, o, err)
	}
	if o := ev.Try(func() {
		rb = rebuild(orig, c)
		rb.SetIndex(c.Crash)
	}); o.Panicked {
		return "rebuild/panic", fmt.Sprintf("%s: rebuild/fast-forward: %s", tag, o)
	}
	r.Eval(1)
	if orig.GetIndex() != c.Crash || rb.GetIndex() != c.Crash {
		return "index/mismatch", fmt.Sprintf("%s: GetIndex original=%d rebuilt=%d", tag, orig.GetIndex(), rb.GetIndex())
	}
	if orig.GetPK() != rb.GetPK() {
		return "pk/mismatch", tag + ": rebuilt object has a different public key"
	}
	same := false
	if snapshot != nil {
		same = bytes.Equal(snapshot(orig), snapshot(rb))
		if same {
			r.Count("snapshots_equal", 1)
		} else {
			r.Count("snapshots_differ_observable_decides", 1)
		}
	}
	if same && !c.Observable {
		return "", ""
	}
	// observable: every subsequent signature, to the end of life, then both refuse
	last := uint32(1)<<uint(c.H) - 1
	limit := last
	if same && c.Observable && c.Crash+6 < last {
		limit = c.Crash + 6 // sampled confirmation of the shortcut
	}
	if c.Mode == "seam" && !same && authPath != nil {
		// cheap-leaf mode with diverging internal state: a signature is (index, R, WOTS part, authentication
		// path); everything but the path is a function of the secret-key bytes, so compare those and the
		// path at every remaining index (single steps), then a few full signatures at the end of life
		for j := c.Crash; j < last; j++ {
			r.Eval(1)
			if !bytes.Equal(authPath(orig), authPath(rb)) || !bytes.Equal(orig.GetSK(), rb.GetSK()) {
				return "continue/signature-differs", fmt.Sprintf("%s: at index %d the two objects would sign with different authentication paths / key bytes", tag, j)
			}
			if o := ev.Try(func() { orig.SetIndex(j + 1); rb.SetIndex(j + 1) }); o.Panicked {
				return "continue/panic", fmt.Sprintf("%s: stepping to %d: %s", tag, j+1, o)
			}
		}
		c2 := *c
		c2.Crash = last
		r.Count("observable_path_walks", 1)
		limit = last
		return finish(r, &c2, orig, rb, last, last, tag)
	}
	return finish(r, c, orig, rb, limit, last, tag)
}

func finish(r *ev.Recorder, c *crashCase, orig, rb *xmss.XMSS, limit, last uint32, tag string) (string, string) {
	for j := c.Crash; j <= limit; j++ {
		m := msgAt(c.Seed, j)
		var s1, s2 []byte
		var e1, e2 error
		o := ev.Try(func() { s1, e1 = orig.Sign(m); s2, e2 = rb.Sign(m) })
		r.Eval(1)
		if o.Panicked || e1 != nil || e2 != nil {
			return "continue/panic", fmt.Sprintf("%s: signing at index %d: %s %v %v", tag, j, o, e1, e2)
		}
		if !bytes.Equal(s1, s2) {
			return "continue/signature-differs", fmt.Sprintf("%s: signatures at index %d differ (first differing byte %d)", tag, j, firstDiff(s1, s2))
		}
	}
	r.Count("observable_comparisons", 1)
	if limit == last {
		o1 := ev.Try(func() { orig.Sign([]byte{1}) })
		o2 := ev.Try(func() { rb.Sign([]byte{1}) })
		if !o1.Panicked || !o2.Panicked || o1.Text != o2.Text {
			return "exhaustion/differs", fmt.Sprintf("%s: after the last leaf original %s, rebuilt %s", tag, o1, o2)
		}
	}
	return "", ""
}

func firstDiff(a, b []byte) int {
	for i := 0; i < len(a) && i < len(b); i++ {
		if a[i] != b[i] {
			return i
		}
	}
	return -1
}

var ways = []string{"sign", "jump", "mixed", "mixed+refusals"}
var routes = []string{"seed", "extended-seed", "mnemonic"}

func TestCrashRebuildReal(t *testing.T) {
	r := ev.New(t, prop, "TestCrashRebuildReal")
	r.Rule("real hashing, h=4 x 3 hash functions and h=6 x one hash chosen by VERIF_SEED (thorough: h in {4,6,8} x 3 hashes): EVERY crash index i in [0,2^h-1] x 4 ways the original reaches i (i signatures / one SetIndex / a drawn mix / a drawn mix that also contains refused calls - index too high, rewinds - which the caller survives) with the rebuild route rotating over {seed, extended seed, mnemonic}; rebuilt = constructor + SetIndex(i); oracle: signature streams identical to the end of life and identical refusal afterwards (snapshot equality used as a sufficient shortcut, observable comparison forced on a sample and whenever snapshots differ); non-trivial = 0 < i reached by a way other than a bare SetIndex on a fresh key, distinct by enumeration (hash,h,i,way)")
	r.Assume("snapshot shortcut: the XMSS object has no state beyond what VerifSnapshot serialises (secret-key bytes incl. index, and every BDS field), and signing is deterministic")
	hs := []int{4, 6}
	if r.Thorough() {
		hs = []int{4, 6, 8}
	}
	n := 0
	for _, hf := range pu.Hashes {
		for _, h := range hs {
			if !r.Thorough() && h == 6 && hf != pu.Hashes[int(r.Seed()%3)] {
				continue // quick: h=6 for one hash function (chosen by VERIF_SEED), h=4 for all three
			}
			seed := pu.DetBytes(r.Seed()*131+uint64(hf)*7+uint64(h), 48)
			for i := uint32(0); i < 1<<uint(h); i++ {
				for wi, w := range ways {
					if !r.Thorough() && wi == int(i+1)%4 && wi != 3 {
						continue // quick: three of the four ways per crash index, rotating (the refusal way always)
					}
					n++
					if !r.Mine(n) {
						continue
					}
					c := &crashCase{Mode: "real", Hash: uint(hf), H: h, Seed: seed, Crash: i, Way: w, MixSeed: r.Seed() + uint64(n), Route: routes[(int(i)+wi)%3],
						Observable: (int(i)+wi)%5 == int(r.Seed()%5)}
					key, msg := runCrash(r, c)
					if i > 0 && w != "jump" {
						r.NonTrivialEnum(1)
					}
					r.Count("way_"+w, 1)
					r.Count("route_"+c.Route, 1)
					if n%37 == 0 {
						r.Sample(c)
					}
					r.Check(t, key == "", key, c, "%s", msg)
				}
			}
			r.Exhaustive(fmt.Sprintf("every crash index of h=%d (%s) x 4 ways, real hashing", h, pu.HashName(hf)))
		}
	}
}

func TestCrashRebuildSeam(t *testing.T) {
	r := ev.New(t, prop, "TestCrashRebuildSeam")
	if seamOn == nil {
		t.Skip("needs the verif hooks")
	}
	r.Rule("cheap-leaf seam, h=10 EVERY crash index, h=12 every 4th (thorough: h=12 every index, h=14 every 8th), h=18 at crash indices around 2^16 and 2^17 (reached by a jump, or a jump and then 1..3 signatures): original reaches i by signatures+single steps or a drawn mix of signatures and jumps, rebuilt = constructor (route rotating) + one SetIndex(i); oracle as in the real engine; non-trivial = i > 0, distinct by enumeration (hash,h,i,way)")
	type spec struct{ h, stride int }
	specs := []spec{{10, 1}, {12, 4}}
	if r.Thorough() {
		specs = []spec{{10, 1}, {12, 1}, {14, 8}}
	}
	n := 0
	for si, sp := range specs {
		hf := pu.Hashes[(int(r.Seed())+si)%3]
		seed := pu.DetBytes(r.Seed()*17+uint64(sp.h), 48)
		for i := uint32(0); i < 1<<uint(sp.h); i += uint32(sp.stride) {
			n++
			if !r.Mine(n) {
				continue
			}
			w := "mixed"
			if n%4 == 1 {
				w = "mixed+refusals"
			}
			if n%3 == 0 {
				w = "sign"
				if i > 300 {
					w = "mixed" // i real WOTS signatures would dominate the run; mixed histories still sign
				}
			}
			c := &crashCase{Mode: "seam", Hash: uint(hf), H: sp.h, Seed: seed, Crash: i, Way: w, MixSeed: r.Seed()*3 + uint64(n), Route: routes[n%3], Observable: n%64 == 0}
			key, msg := runCrash(r, c)
			if i > 0 {
				r.NonTrivialEnum(1)
			}
			r.Count(fmt.Sprintf("h%02d_way_%s", sp.h, w), 1)
			if n%997 == 0 {
				r.Sample(c)
			}
			r.Check(t, key == "", key, c, "%s", msg)
		}
		if sp.stride == 1 {
			r.Exhaustive(fmt.Sprintf("every crash index of h=%d (%s), cheap leaves", sp.h, pu.HashName(hf)))
		}
	}
	// a tall key (h = 18): crash indices around 2^16 and 2^17, where the stored index needs its third byte; the
	// original gets there by one jump, or by a jump followed by 1..3 signatures
	tall := []uint32{65535, 65536, 65537, 131071, 131072, 65536 + 255, 65536 + 256}
	for k, i := range tall {
		for wi, w := range []string{"jump-then-signs", "jump"} {
			n++
			if !r.Mine(n) {
				continue
			}
			c := &crashCase{Mode: "seam", Hash: uint(pu.Hashes[(k+wi)%3]), H: 18, Seed: pu.DetBytes(r.Seed()*17+18, 48), Crash: i, Way: w, MixSeed: r.Seed() + uint64(k), Route: routes[(k+wi)%3], Observable: false}
			key, msg := runCrash(r, c)
			r.NonTrivialEnum(1)
			r.Count("h18_way_"+w, 1)
			r.Check(t, key == "", key, c, "%s", msg)
		}
	}
}

func init() {
	f := func(t *testing.T, r *ev.Recorder, raw json.RawMessage) {
		var c crashCase
		if err := json.Unmarshal(raw, &c); err != nil {
			t.Fatalf("HARNESS-HEALTH: %v", err)
		}
		c.Observable = true
		key, msg := runCrash(r, &c)
		r.Check(t, key == "", key, &c, "%s", msg)
	}
	ev.Register("TestCrashRebuildReal", f)
	ev.Register("TestCrashRebuildSeam", f)
}
