//go:build verif

package c08

import (
	"github.com/theQRL/go-qrllib/xmss"
	"verifharness/seam"
)

func init() {
	snapshot = func(x *xmss.XMSS) []byte { return x.VerifSnapshot() }
	seamOn, seamOff = seam.On, seam.Off
	authPath = func(x *xmss.XMSS) []byte { return x.VerifAuthPath() }
}
