// C15 — Stateless operations are safe to run concurrently and history-free.
// The binary is built with -race. Oracle: (i) the race detector reports nothing; (ii) every call's result
// when run concurrently equals its result in two different sequential orders AND the answer of the
// reference models (so "consistently corrupted by earlier history" is caught too).
package c15

import (
	"bytes"
	"encoding/hex"
	"encoding/json"
	"fmt"
	"os"
	"os/exec"
	"runtime"
	"strings"
	"sync"
	"testing"

	"github.com/theQRL/go-qrllib/common"
	"github.com/theQRL/go-qrllib/dilithium"
	"github.com/theQRL/go-qrllib/misc"
	"github.com/theQRL/go-qrllib/qrl"
	"github.com/theQRL/go-qrllib/xmss"
	"pgregory.net/rapid"
	"verifharness/ev"
	"verifharness/pu"
	"verifharness/ref/codecref"
	"verifharness/ref/dilref"
	"verifharness/ref/xmssref"
)

const prop = "C15"

func TestMain(m *testing.M) {
	ev.Main(m, prop, []ev.Job{
		{Test: "TestPrograms", Quick: 8, Thorough: 16, Race: true},
	})
}

func TestReplay(t *testing.T)  { ev.StdReplay(t, prop) }
func TestRegress(t *testing.T) { ev.StdRegress(t, prop) }

// ---- pools shared by all goroutines (built once per process, before any concurrency) ----

type xTriple struct {
	msg, sig, bad []byte
	pk            [67]byte
}

type pools struct {
	batch  []byte    // the three valid XMSS signatures stored back to back in ONE buffer (shared by all goroutines, read-only)
	xlong  []xTriple // the same keys, a 5000-byte message each
	x      []xTriple // valid XMSS triples from 3 different keys (3 hash functions)
	xw     map[uint32][]xTriple // valid triples for Winternitz parameters 4 and 256 (reference-made, one per hash function)
	xseeds [][]byte  // seeds for goroutine-private XMSS keys
	xrefs  []*xmssref.Key
	d      []*dilithium.Dilithium // SHARED Dilithium key objects
	dref   []*dilref.Keys
	dpk    [][dilithium.CryptoPublicKeyBytes]byte
	dmsgs  [][]byte
	dsigs  map[[2]int][]byte // reference signatures (key, msg)
	seeds  [][]byte          // 48-byte values for the mnemonic codec
	eseeds [][]byte          // 51-byte values
	words  []string
}

var pl *pools

func getPools() *pools {
	if pl != nil {
		return pl
	}
	p := &pools{dsigs: map[[2]int][]byte{}, xw: map[uint32][]xTriple{}, words: qrl.WordList[:]}
	for i, hf := range pu.Hashes {
		seed := pu.DetBytes(uint64(1000+i), 48)
		ref := xmssref.NewKey(seed, 4, pu.RefHash(hf))
		msg := pu.DetBytes(uint64(2000+i), 20+i)
		sig := ref.Sign(uint32(3+i), msg)
		bad := append([]byte{}, sig...)
		bad[100+i] ^= 0x10
		var pk [67]byte
		copy(pk[:], pu.RefPK(ref, hf))
		p.x = append(p.x, xTriple{msg, sig, bad, pk})
		lmsg := pu.DetBytes(uint64(2500+i), 5000+i)
		p.xlong = append(p.xlong, xTriple{lmsg, ref.Sign(uint32(9+i), lmsg), nil, pk})
		p.xseeds = append(p.xseeds, seed)
		p.xrefs = append(p.xrefs, ref)
		for _, w := range []uint32{4, 256} {
			mat := pu.DetBytes(uint64(2700+i)+uint64(w), 96+32*4)
			sibs := [][]byte{mat[96:128], mat[128:160], mat[160:192], mat[192:224]}
			wsig, wroot := xmssref.FabricateW(xmssref.ParamsFor(int(w)), pu.RefHash(hf), 4, uint32(5+i), msg, mat[0:32], mat[32:64], mat[64:96], sibs, -1)
			var wpk [67]byte
			copy(wpk[:], append(append([]byte{byte(hf), 2, 0}, wroot...), mat[32:64]...))
			p.xw[w] = append(p.xw[w], xTriple{msg, wsig, nil, wpk})
		}
	}
	for i := range p.x {
		p.batch = append(p.batch, p.x[i].sig...)
	}
	p.batch = append(p.batch, make([]byte, 64)...)
	for i := 0; i < 3; i++ {
		seed := pu.DetBytes(uint64(3000+i), 48)
		ref := pu.DilRef(seed)
		if os.Getenv("VERIF_ALONE_OP") == "" || strings.Contains(os.Getenv("VERIF_ALONE_OP"), "shared") || strings.Contains(os.Getenv("VERIF_ALONE_OP"), "reusedbuf") {
			// the SHARED library key objects; a child computing a call's result "alone" builds them only if the call needs them
			d, err := pu.DilKey(seed)
			if err != nil {
				panic(err)
			}
			p.d = append(p.d, d)
		}
		p.dref = append(p.dref, ref)
		var pk [dilithium.CryptoPublicKeyBytes]byte
		copy(pk[:], ref.PK)
		p.dpk = append(p.dpk, pk)
		p.dmsgs = append(p.dmsgs, pu.DetBytes(uint64(4000+i), 10+60*i))
		p.seeds = append(p.seeds, pu.DetBytes(uint64(5000+i), 48))
		p.eseeds = append(p.eseeds, pu.DetBytes(uint64(6000+i), 51))
	}
	for k := range p.d {
		for m := range p.dmsgs {
			s, _ := p.dref[k].Sign(p.dmsgs[m], "")
			p.dsigs[[2]int{k, m}] = s
		}
	}
	pl = p
	return p
}

// ---- calls ----

type callSpec struct {
	Op string `json:"op"`
	A  int    `json:"a"` // pool index
	B  int    `json:"b"` // second pool index / variant
}

type program struct {
	Procs   int          `json:"gomaxprocs"`
	Yield   bool         `json:"gosched_between_calls"`
	Threads [][]callSpec `json:"threads"`
}

var ops = []string{"xmss.Verify", "xmss.Verify.bad", "xmss.Address", "xmss.IsValidAddress", "xmss.LegacyAddress", "xmss.IsValidLegacy", "descriptor", "mnemonic.enc48", "mnemonic.dec48", "mnemonic.enc51", "mnemonic.dec51", "mnemonic.bad",
	"dil.Verify", "dil.Verify.bad", "dil.Verify.malformed", "dil.Open", "dil.Address", "dil.IsValidAddress", "dil.Sign.shared", "dil.Seal.shared", "dil.getters.shared", "xmss.private.Sign", "xmss.private.SetIndex", "xmss.private.getters", "xmss.VerifyW", "xmss.VerifyW", "xmss.helpers", "xmss.Verify.long", "xmss.IsValidLegacy.bad", "dil.Verify.lookalike", "dil.Sign.reusedbuf", "xmss.Verify.inbatch", "dil.Open.wrongkey-then-right", "fresh-wallet"}

// Winternitz parameters presented to VerifyWithCustomWOTSParamW: the three supported ones and, per size class,
// one value that the parameter validation also lets through (truncated log2): 17 ~ 16, 5 ~ 4, 300 ~ 256.
var wChoices = []uint32{16, 4, 256, 17, 5, 300}

func wSig(p *pools, a int, w uint32) []byte {
	switch w {
	case 16, 17:
		return p.x[a].sig
	case 4, 5:
		return make([]byte, 4+32+133*32+32*4)
	}
	return make([]byte, 4+32+34*32+32*4)
}

// expected returns the reference answer for a stateless call ("" = stateful, checked separately).
func expected(p *pools, c callSpec) string {
	a := c.A % 3
	switch c.Op {
	case "xmss.Verify":
		return "true"
	case "xmss.Verify.bad", "xmss.IsValidLegacy.bad", "dil.Verify.lookalike":
		return "false"
	case "xmss.Verify.long", "xmss.Verify.inbatch":
		return "true"
	case "dil.Open.wrongkey-then-right":
		return "/" + hex.EncodeToString(p.dmsgs[c.B%3])
	case "dil.Sign.reusedbuf":
		return hex.EncodeToString(p.dsigs[[2]int{a, c.B % 3}])[:64] + "/" + hex.EncodeToString(p.dsigs[[2]int{a, (c.B + 1) % 3}])[:64]
	case "xmss.helpers":
		d := codecref.Desc(uint(a), uint(c.B%2), uint(4+2*(c.B%4)), 0)
		return fmt.Sprintf("truetruetrue/0102030405060708/%x", d)
	case "xmss.VerifyW":
		if w := wChoices[c.B%len(wChoices)]; w == 16 || w == 4 || w == 256 {
			return "true" // genuine triples for the three supported parameters (reference-made for 4 and 256)
		}
		return aloneResult(c) // unsupported parameters have no reference model: the definition is "what the call returns when run alone"
	case "xmss.Address":
		x := codecref.XMSSAddress(p.x[a].pk[:])
		return hex.EncodeToString(x[:])
	case "xmss.IsValidAddress":
		return "true"
	case "xmss.LegacyAddress":
		x := codecref.LegacyXMSSAddress(p.x[a].pk[:])
		return hex.EncodeToString(x[:])
	case "xmss.IsValidLegacy":
		return "true"
	case "descriptor":
		d := codecref.Desc(uint(a), uint(c.B%2), uint(4+2*(c.B%14)), 0)
		return fmt.Sprintf("%x/%d/%d/%d/0", d, a, c.B%2, 4+2*(c.B%14))
	case "mnemonic.enc48", "mnemonic.dec48":
		s, _ := codecref.Encode(p.seeds[a], p.words)
		if c.Op == "mnemonic.dec48" {
			return hex.EncodeToString(p.seeds[a])
		}
		return s
	case "mnemonic.enc51", "mnemonic.dec51":
		s, _ := codecref.Encode(p.eseeds[a], p.words)
		if c.Op == "mnemonic.dec51" {
			return hex.EncodeToString(p.eseeds[a])
		}
		return s
	case "mnemonic.bad":
		return "refused"
	case "dil.Verify":
		return "true"
	case "dil.Verify.bad", "dil.Verify.malformed":
		return "false"
	case "dil.Open":
		return hex.EncodeToString(p.dmsgs[c.B%3])
	case "dil.Address":
		x := codecref.DilithiumAddress(p.dpk[a][:])
		return hex.EncodeToString(x[:])
	case "dil.IsValidAddress":
		return "true"
	case "dil.Sign.shared":
		return hex.EncodeToString(p.dsigs[[2]int{a, c.B % 3}])
	case "dil.Seal.shared":
		return hex.EncodeToString(p.dsigs[[2]int{a, c.B % 3}]) + hex.EncodeToString(p.dmsgs[c.B%3])
	case "dil.getters.shared":
		return hex.EncodeToString(p.dref[a].PK[:64]) + hex.EncodeToString(p.dref[a].SK[:64])
	}
	return ""
}

// ---- the "run alone" oracle: the same call in a fresh process that has done nothing else ----

var aloneCache = map[callSpec]string{}
var aloneMu sync.Mutex

func aloneResult(c callSpec) string {
	c.A %= 3
	if c.Op == "xmss.VerifyW" {
		c.B %= len(wChoices)
	}
	aloneMu.Lock()
	defer aloneMu.Unlock()
	if v, ok := aloneCache[c]; ok {
		return v
	}
	b, _ := json.Marshal(c)
	cmd := exec.Command(os.Args[0], "-test.run", "^TestAlone$", "-test.v")
	cmd.Env = append(os.Environ(), "VERIF_ALONE_OP="+string(b), "VERIF_OUT=", "VERIF_LIST=")
	out, err := cmd.CombinedOutput()
	res := "ALONE-ORACLE-FAILED: " + fmt.Sprint(err)
	for _, line := range strings.Split(string(out), "\n") {
		if i := strings.Index(line, "ALONE-RESULT:"); i >= 0 {
			res = line[i+len("ALONE-RESULT:"):]
		}
	}
	aloneCache[c] = res
	return res
}

// TestAlone is the child side of aloneResult (not a check by itself).
func TestAlone(t *testing.T) {
	js := os.Getenv("VERIF_ALONE_OP")
	if js == "" {
		t.Skip("child of the run-alone oracle only")
	}
	var c callSpec
	if err := json.Unmarshal([]byte(js), &c); err != nil {
		t.Fatal(err)
	}
	fmt.Printf("ALONE-RESULT:%s\n", exec1(getPools(), c))
}

func exec1(p *pools, c callSpec) string { return execCall(p, c, nil) }

type privKey struct {
	x    *xmss.XMSS
	pool int
}

// exec runs one call; priv is the calling goroutine's private XMSS key.
func execCall(p *pools, c callSpec, priv *privKey) (res string) {
	defer func() {
		if v := recover(); v != nil {
			if s, ok := v.(string); ok {
				res = "refused"
				if c.Op != "mnemonic.bad" && c.Op != "xmss.private.Sign" && c.Op != "xmss.private.SetIndex" {
					res = "refused: " + s
				}
				return
			}
			res = fmt.Sprintf("PANIC %T: %v", v, v)
		}
	}()
	a := c.A % 3
	switch c.Op {
	case "xmss.Verify":
		return fmt.Sprint(xmss.Verify(p.x[a].msg, p.x[a].sig, p.x[a].pk))
	case "xmss.Verify.bad":
		return fmt.Sprint(xmss.Verify(p.x[a].msg, p.x[a].bad, p.x[a].pk))
	case "xmss.Verify.long":
		return fmt.Sprint(xmss.Verify(p.xlong[a].msg, p.xlong[a].sig, p.xlong[a].pk))
	case "xmss.Verify.inbatch":
		// the signature is a window into a buffer that holds other signatures right behind it
		n := len(p.x[0].sig)
		return fmt.Sprint(xmss.Verify(p.x[a].msg, p.batch[a*n:(a+1)*n], p.x[a].pk))
	case "dil.Open.wrongkey-then-right":
		// one sealed buffer (private to this call) opened under a wrong key, then under the right one
		sm := append(append([]byte{}, p.dsigs[[2]int{a, c.B % 3}]...), p.dmsgs[c.B%3]...)
		wrong, right := p.dpk[(a+1)%3], p.dpk[a]
		return hex.EncodeToString(dilithium.Open(sm, &wrong)) + "/" + hex.EncodeToString(dilithium.Open(sm, &right))
	case "xmss.IsValidLegacy.bad":
		l := xmss.GetLegacyXMSSAddressFromPK(p.x[a].pk)
		l[35+c.B%4] ^= byte(1 << uint(c.B%8)) // a checksum byte damaged
		return fmt.Sprint(xmss.IsValidLegacyXMSSAddress(l))
	case "dil.Verify.lookalike":
		var s [dilithium.CryptoBytes]byte
		copy(s[:], p.dsigs[[2]int{a, c.B % 3}])
		pk := p.dpk[a]
		bit := 64 + (c.B*1009)%(len(pk)*8-64)
		pk[bit/8] ^= 1 << uint(bit%8)
		return fmt.Sprint(dilithium.Verify(p.dmsgs[c.B%3], s, &pk))
	case "dil.Sign.reusedbuf":
		// two messages signed through ONE buffer overwritten in place (private to the calling goroutine)
		m1, m2 := p.dmsgs[c.B%3], p.dmsgs[(c.B+1)%3]
		n := len(m1)
		if len(m2) > n {
			n = len(m2)
		}
		buf := make([]byte, n)
		copy(buf, m1)
		s1, e1 := p.d[a].Sign(buf[:len(m1)])
		copy(buf, m2)
		s2, e2 := p.d[a].Sign(buf[:len(m2)])
		if e1 != nil || e2 != nil {
			return fmt.Sprint("error ", e1, e2)
		}
		return hex.EncodeToString(s1[:])[:64] + "/" + hex.EncodeToString(s2[:])[:64]
	case "xmss.VerifyW":
		w := wChoices[c.B%len(wChoices)]
		if t, ok := p.xw[w]; ok {
			return fmt.Sprint(xmss.VerifyWithCustomWOTSParamW(t[a].msg, t[a].sig, t[a].pk, w))
		}
		return fmt.Sprint(xmss.VerifyWithCustomWOTSParamW(p.x[a].msg, wSig(p, a, w), p.x[a].pk, w))
	case "xmss.helpers":
		// exported parameter / state constructors called directly with legal but unusual arguments: only their
		// effect on LATER calls matters here (a memo or cache keyed too coarsely)
		w := wChoices[c.B%len(wChoices)]
		h := uint32(4 + 2*(c.B%4))
		wp := xmss.NewWOTSParams(32, w)
		xp := xmss.NewXMSSParams(32, h, w, 2)
		st := xmss.NewBDSState(h, 32, 2)
		out := make([]uint8, 8)
		xmss.CalcBaseW(out, 8, []uint8{0x12, 0x34, 0x56, 0x78, 0x9a, 0xbc, 0xde, 0xf0}, xmss.NewWOTSParams(32, 16))
		d := xmss.NewQRLDescriptor(uint8(h), xmss.HashFunction(a), common.SignatureType(c.B%2), common.SHA256_2X)
		return fmt.Sprintf("%v%v%v/%x/%x", wp != nil, xp != nil, st != nil, out, d.GetBytes())
	case "xmss.Address":
		x := xmss.GetXMSSAddressFromPK(p.x[a].pk)
		return hex.EncodeToString(x[:])
	case "xmss.IsValidAddress":
		return fmt.Sprint(xmss.IsValidXMSSAddress(xmss.GetXMSSAddressFromPK(p.x[a].pk)))
	case "xmss.LegacyAddress":
		x := xmss.GetLegacyXMSSAddressFromPK(p.x[a].pk)
		return hex.EncodeToString(x[:])
	case "xmss.IsValidLegacy":
		return fmt.Sprint(xmss.IsValidLegacyXMSSAddress(xmss.GetLegacyXMSSAddressFromPK(p.x[a].pk)))
	case "descriptor":
		d := xmss.NewQRLDescriptor(uint8(4+2*(c.B%14)), xmss.HashFunction(a), common.SignatureType(c.B%2), common.SHA256_2X)
		b := d.GetBytes()
		e := xmss.NewQRLDescriptorFromBytes(b[:])
		return fmt.Sprintf("%x/%d/%d/%d/%d", b, e.GetHashFunction(), e.GetSignatureType(), e.GetHeight(), e.GetAddrFormatType())
	case "mnemonic.enc48":
		return misc.SeedBinToMnemonic(pu.Arr48(p.seeds[a]))
	case "mnemonic.dec48":
		s, _ := codecref.Encode(p.seeds[a], p.words)
		x := misc.MnemonicToSeedBin(s)
		return hex.EncodeToString(x[:])
	case "mnemonic.enc51":
		var e [51]byte
		copy(e[:], p.eseeds[a])
		return misc.ExtendedSeedBinToMnemonic(e)
	case "mnemonic.dec51":
		s, _ := codecref.Encode(p.eseeds[a], p.words)
		x := misc.MnemonicToExtendedSeedBin(s)
		return hex.EncodeToString(x[:])
	case "mnemonic.bad":
		s, _ := codecref.Encode(p.seeds[a], p.words)
		x := misc.MnemonicToSeedBin("Q" + s)
		return hex.EncodeToString(x[:])
	case "dil.Verify.malformed":
		// a signature whose hint section is not a canonical encoding (rejected by the decoder, before any arithmetic)
		var s [dilithium.CryptoBytes]byte
		copy(s[:], p.dsigs[[2]int{a, c.B % 3}])
		switch c.B % 4 {
		case 0:
			s[dilithium.CryptoBytes-1] = 200 // count > omega
		case 1:
			s[dilithium.CryptoBytes-8] = 80
		case 2:
			for i := range s {
				s[i] = 0xff
			}
		default:
			copy(s[:], pu.HintChain(s[:], c.B%8, 90, uint64(c.B)))
		}
		pk := p.dpk[a]
		return fmt.Sprint(dilithium.Verify(p.dmsgs[c.B%3], s, &pk))
	case "dil.Verify", "dil.Verify.bad":
		var s [dilithium.CryptoBytes]byte
		copy(s[:], p.dsigs[[2]int{a, c.B % 3}])
		m := p.dmsgs[c.B%3]
		if c.Op == "dil.Verify.bad" {
			m = p.dmsgs[(c.B+1)%3]
		}
		pk := p.dpk[a]
		return fmt.Sprint(dilithium.Verify(m, s, &pk))
	case "dil.Open":
		sm := append(append([]byte{}, p.dsigs[[2]int{a, c.B % 3}]...), p.dmsgs[c.B%3]...)
		pk := p.dpk[a]
		return hex.EncodeToString(dilithium.Open(sm, &pk))
	case "dil.Address":
		x := dilithium.GetDilithiumAddressFromPK(p.dpk[a])
		return hex.EncodeToString(x[:])
	case "dil.IsValidAddress":
		return fmt.Sprint(dilithium.IsValidDilithiumAddress(dilithium.GetDilithiumAddressFromPK(p.dpk[a])))
	case "dil.Sign.shared":
		s, err := p.d[a].Sign(p.dmsgs[c.B%3])
		if err != nil {
			return "error " + err.Error()
		}
		return hex.EncodeToString(s[:])
	case "dil.Seal.shared":
		s, err := p.d[a].Seal(p.dmsgs[c.B%3])
		if err != nil {
			return "error " + err.Error()
		}
		return hex.EncodeToString(s)
	case "dil.getters.shared":
		pk, sk := p.d[a].GetPK(), p.d[a].GetSK()
		return hex.EncodeToString(pk[:64]) + hex.EncodeToString(sk[:64])
	case "fresh-wallet":
		// a wallet from the library's own randomness (XMSS h=4 or Dilithium): the answer is its seed. Not comparable
		// with a re-run; what must hold is that no two wallets of one program share a seed and that the wallet is
		// the one its own seed regenerates
		if c.B%2 == 0 {
			x := xmss.NewXMSSFromHeight(4, pu.Hashes[a])
			sd := x.GetSeed()
			if y := xmss.NewXMSSFromSeed(sd, 4, pu.Hashes[a], common.SHA256_2X); y.GetPK() != x.GetPK() {
				return "WRONG-PK fresh XMSS wallet is not the one its seed regenerates"
			}
			return "fresh:" + hex.EncodeToString(sd[:])
		}
		d, err := dilithium.New()
		if err != nil {
			return "error " + err.Error()
		}
		sd := d.GetSeed()
		y, err := dilithium.NewDilithiumFromSeed(sd)
		if err != nil || y.GetPK() != d.GetPK() {
			return "WRONG-PK fresh Dilithium wallet is not the one its seed regenerates"
		}
		return "fresh:" + hex.EncodeToString(sd[:])
	case "xmss.private.Sign":
		idx := priv.x.GetIndex()
		m := []byte{byte(c.B), byte(idx)}
		s, err := priv.x.Sign(m)
		if err != nil {
			return "error " + err.Error()
		}
		if !bytes.Equal(s, p.xrefs[priv.pool].Sign(idx, m)) {
			return fmt.Sprintf("WRONG-SIGNATURE at index %d", idx)
		}
		return fmt.Sprintf("signed@%d", idx)
	case "xmss.private.SetIndex":
		j := priv.x.GetIndex() + uint32(c.B%3)
		priv.x.SetIndex(j)
		return fmt.Sprintf("index=%d", priv.x.GetIndex())
	case "xmss.private.getters":
		pk := priv.x.GetPK()
		ad := priv.x.GetAddress()
		if !bytes.Equal(pk[:], pu.RefPK(p.xrefs[priv.pool], pu.Hashes[priv.pool])) {
			return "WRONG-PK"
		}
		return hex.EncodeToString(ad[:]) + priv.x.GetMnemonic()[:20]
	}
	return "unknown op"
}

func newPriv(p *pools, g int) *privKey {
	i := g % 3
	return &privKey{x: pu.NewXMSS(p.xseeds[i], 4, pu.Hashes[i]), pool: i}
}

// runProgram executes the three phases and returns the first discrepancy.
func runProgram(r *ev.Recorder, pg *program) (string, string) {
	p := getPools()
	old := runtime.GOMAXPROCS(pg.Procs)
	defer runtime.GOMAXPROCS(old)
	n := len(pg.Threads)
	// phase 1: concurrent
	res1 := make([][]string, n)
	var wg sync.WaitGroup
	start := make(chan struct{})
	for g := 0; g < n; g++ {
		res1[g] = make([]string, len(pg.Threads[g]))
		wg.Add(1)
		go func(g int) {
			defer wg.Done()
			priv := newPriv(p, g)
			<-start
			for i, c := range pg.Threads[g] {
				if pg.Yield {
					runtime.Gosched()
				}
				res1[g][i] = execCall(p, c, priv)
			}
		}(g)
	}
	close(start)
	wg.Wait()
	seeds := map[string][2]int{}
	noteFresh := func(res string, g, i int) (string, string) {
		if !strings.HasPrefix(res, "fresh:") {
			return "", ""
		}
		for k := 0; k+16 <= len(res)-6; k += 16 {
			// any aligned 8-byte window in common is as good as a whole seed in common (a shared, unsynchronised
			// buffer hands the same bytes to two readers)
			w := res[6+k : 6+k+16]
			if at, dup := seeds[fmt.Sprintf("%d:%s", k, w)]; dup && (at[0] != g || at[1] != i) {
				return "fresh-wallets-share-seed-bytes", fmt.Sprintf("goroutine %d call %d and goroutine %d call %d created wallets whose seeds share bytes %d..%d (%s)", at[0], at[1], g, i, k/2, k/2+7, w)
			}
			seeds[fmt.Sprintf("%d:%s", k, w)] = [2]int{g, i}
		}
		return "", ""
	}
	for g := range res1 {
		for i, res := range res1[g] {
			if k, m := noteFresh(res, g, i); k != "" {
				return k, m
			}
		}
	}
	// phases 2 and 3: the same calls sequentially, in two different interleavings that keep each
	// goroutine's own order (private XMSS keys are stateful), with fresh private keys
	for phase := 2; phase <= 3; phase++ {
		privs := make([]*privKey, n)
		next := make([]int, n)
		for g := range privs {
			privs[g] = newPriv(p, g)
		}
		order := make([]int, n)
		for g := range order {
			order[g] = g
			if phase == 3 {
				order[g] = n - 1 - g
			}
		}
		for remaining := true; remaining; {
			remaining = false
			for _, g := range order {
				// phase 2: round-robin one call at a time; phase 3: reversed goroutine order, two calls at a time
				for k := 0; k < phase-1 && next[g] < len(pg.Threads[g]); k++ {
					i := next[g]
					next[g]++
					remaining = true
					c := pg.Threads[g][i]
					got := execCall(p, c, privs[g])
					r.Eval(1)
					if c.Op == "fresh-wallet" {
						if strings.HasPrefix(got, "fresh:") && strings.HasPrefix(res1[g][i], "fresh:") {
							if k, m := noteFresh(got, 1000*phase+g, i); k != "" {
								return k, m
							}
							continue
						}
						return "call-fails/" + c.Op, fmt.Sprintf("goroutine %d call %d (%s): concurrent result %.80q, sequential result %.80q", g, i, c.Op, res1[g][i], got)
					}
					if got != res1[g][i] {
						return "concurrent-vs-sequential/" + c.Op, fmt.Sprintf("goroutine %d call %d (%s a=%d b=%d): concurrent result %.80q, sequential (phase %d) result %.80q", g, i, c.Op, c.A, c.B, res1[g][i], phase, got)
					}
					if want := expected(p, c); want != "" && got != want {
						return "differs-from-reference/" + c.Op, fmt.Sprintf("goroutine %d call %d (%s a=%d b=%d): result %.80q, reference model %.80q", g, i, c.Op, c.A, c.B, got, want)
					}
					if len(got) > 5 && (got[:5] == "PANIC" || got[:5] == "WRONG" || got[:5] == "error") {
						return "call-fails/" + c.Op, fmt.Sprintf("goroutine %d call %d (%s): result %s", g, i, c.Op, got)
					}
				}
			}
		}
	}
	return "", ""
}

func TestPrograms(t *testing.T) {
	r := ev.New(t, prop, "TestPrograms")
	r.Rule("rapid draws a concurrent PROGRAM: 2..16 goroutines x 5..40 calls from {xmss.Verify valid/corrupted, address derivation/validation incl. legacy, descriptor encode/decode, mnemonic encode/decode/refusal, dilithium Verify/Open/address, Sign/Seal/getters on one of three SHARED Dilithium keys, Sign/SetIndex/getters on a goroutine-PRIVATE XMSS key, creation of fresh wallets from the library's own randomness (no two may share seed bytes, each must be the wallet its seed regenerates)} over pools of 3 keys per scheme, optional Gosched between calls, GOMAXPROCS in {1,2,4,16}; run under -race with all goroutines released by a barrier, then re-run sequentially in two interleavings; each shard is a fresh process that begins with a first-use storm (every operation family first used from 8 goroutines at once; odd shards start with verifications under unusual Winternitz parameters) and alternation storms (8 goroutines switching pool entries every round); results without a reference model are compared with the same call run ALONE in a fresh child process; oracle: no race report, concurrent result == sequential results == reference model answer; non-trivial = a program in which >= 2 goroutines call the same operation family on different pool entries or share a Dilithium key, distinct by program")
	r.Assume("schedules are sampled, not enumerated: the harness does not own the Go scheduler; the race detector reports unsynchronised conflicting accesses whenever both occur in a run without a happens-before edge")
	p := getPools()
	// first-use storm: in this fresh process the very first use of every operation family happens from 8
	// goroutines at once (a lazily initialised cache can only race on its first use); order drawn from the seed
	order := append([]string{}, ops...)
	x := r.SubSeed("storm")
	for i := len(order) - 1; i > 0; i-- {
		x ^= x << 13
		x ^= x >> 7
		x ^= x << 17
		j := int(x>>3) % (i + 1)
		order[i], order[j] = order[j], order[i]
	}
	if r.Shard()%2 == 1 {
		// odd shards: the very first library use of the process is a verification with an unusual Winternitz
		// parameter (incl. the non-powers-of-two the validation lets through); everything that follows is compared
		// with the reference models, so a parameter cache poisoned by that call shows up there
		for b := range wChoices {
			for a := 0; a < 3; a++ {
				if r.Shard()%4 == 3 {
					execCall(p, callSpec{Op: "xmss.helpers", A: a, B: len(wChoices) - 1 - b}, nil)
				}
				execCall(p, callSpec{Op: "xmss.VerifyW", A: a, B: len(wChoices) - 1 - b}, nil)
			}
		}
		r.Count("process_started_with_unusual_w", 1)
		seen := map[string]bool{}
		dedup := order[:0]
		for _, op := range order {
			if !seen[op] {
				seen[op] = true
				dedup = append(dedup, op)
			}
		}
		order = dedup
	}
	for _, op := range order {
		const G = 8
		got := make([]string, G)
		specs := make([]callSpec, G)
		var wg sync.WaitGroup
		start := make(chan struct{})
		for g := 0; g < G; g++ {
			specs[g] = callSpec{Op: op, A: g % 3, B: g}
			wg.Add(1)
			go func(g int) {
				defer wg.Done()
				var priv *privKey
				if len(op) > 12 && op[:12] == "xmss.private" {
					priv = newPriv(p, g)
				}
				<-start
				got[g] = execCall(p, specs[g], priv)
			}(g)
		}
		r.Pending(map[string]any{"first_use_storm": op})
		close(start)
		wg.Wait()
		r.Done()
		for g := 0; g < G; g++ {
			r.Eval(1)
			if want := expected(p, specs[g]); want != "" && got[g] != want {
				r.Check(t, false, "first-use/"+op, &program{Procs: runtime.GOMAXPROCS(0), Threads: [][]callSpec{{specs[g]}}}, "first concurrent use of %s: result %.80q, reference %.80q", op, got[g], want)
			}
		}
		if op == "fresh-wallet" {
			// eight wallets created at the same instant: no two may share seed bytes, none may fail
			win := map[string]int{}
			for g := 0; g < G; g++ {
				res := got[g]
				if !strings.HasPrefix(res, "fresh:") {
					r.Check(t, false, "first-use/fresh-wallet-fails", &program{Procs: runtime.GOMAXPROCS(0), Threads: [][]callSpec{{specs[g]}}}, "creating a fresh wallet concurrently with 7 others: %.120q", res)
				}
				for k := 0; k+16 <= len(res)-6; k += 16 {
					w := fmt.Sprintf("%d:%s", k, res[6+k:6+k+16])
					if og, dup := win[w]; dup {
						r.Check(t, false, "fresh-wallets-share-seed-bytes", &program{Procs: runtime.GOMAXPROCS(0), Threads: [][]callSpec{{specs[og]}, {specs[g]}}}, "two of eight wallets created at the same instant share seed bytes %d..%d (%s)", k/2, k/2+7, w)
					}
					win[w] = g
				}
			}
		}
		r.Count("first_use_storms", 1)
	}
	// alternation storms: 8 goroutines hammer ONE operation family, every goroutine switching to another pool
	// entry (key / public key / seed) on every round - the access pattern that defeats a cache keyed on "the
	// last key used" (sequentially detectable too) or published in two steps (only concurrently)
	for _, op := range []string{"dil.Verify.malformed", "dil.Verify.lookalike", "dil.Verify", "dil.Open", "dil.Sign.shared", "dil.Sign.reusedbuf", "xmss.Verify.long", "xmss.Verify.inbatch", "dil.Open.wrongkey-then-right", "dil.Address", "xmss.Verify", "xmss.Address", "mnemonic.dec48", "xmss.VerifyW"} {
		const G, R = 8, 24
		var wg sync.WaitGroup
		start := make(chan struct{})
		bad := make([]string, G)
		for g := 0; g < G; g++ {
			wg.Add(1)
			go func(g int) {
				defer wg.Done()
				<-start
				for round := 0; round < R; round++ {
					c := callSpec{Op: op, A: (g + round) % 3, B: (g*7 + round) % 6}
					got := execCall(p, c, nil)
					if want := expected(p, c); want != "" && got != want && bad[g] == "" {
						bad[g] = fmt.Sprintf("%s a=%d b=%d: result %.60q, reference %.60q", op, c.A, c.B, got, want)
					}
				}
			}(g)
		}
		r.Pending(map[string]any{"alternation_storm": op})
		close(start)
		wg.Wait()
		r.Done()
		r.Eval(G * R)
		for g := 0; g < G; g++ {
			r.Check(t, bad[g] == "", "alternation/"+op, &program{Procs: runtime.GOMAXPROCS(0), Threads: [][]callSpec{{{Op: op, A: 0, B: 0}, {Op: op, A: 1, B: 1}, {Op: op, A: 2, B: 2}}, {{Op: op, A: 1, B: 0}, {Op: op, A: 2, B: 1}, {Op: op, A: 0, B: 2}}}}, "alternating keys under concurrency: %s", bad[g])
		}
		r.Count("alternation_storms", 1)
	}
	checks := r.Pick(2, 10)
	r.Rapid(t, "prog", checks, func(rt *rapid.T) {
		pg := &program{Procs: rapid.SampledFrom([]int{1, 2, 4, 16, 16}).Draw(rt, "gomaxprocs"), Yield: rapid.Bool().Draw(rt, "yield")}
		n := rapid.IntRange(2, 16).Draw(rt, "goroutines")
		fam := map[string]map[int]bool{}
		shared := map[int]int{}
		for g := 0; g < n; g++ {
			var th []callSpec
			for i := rapid.IntRange(5, 40).Draw(rt, "calls"); i > 0; i-- {
				c := callSpec{Op: rapid.SampledFrom(ops).Draw(rt, "op"), A: rapid.IntRange(0, 2).Draw(rt, "a"), B: rapid.IntRange(0, 27).Draw(rt, "b")}
				th = append(th, c)
				if fam[c.Op] == nil {
					fam[c.Op] = map[int]bool{}
				}
				fam[c.Op][g*3+c.A] = true
				if len(c.Op) > 10 && c.Op[len(c.Op)-6:] == "shared" {
					shared[c.A]++
				}
			}
			pg.Threads = append(pg.Threads, th)
		}
		r.Pending(pg)
		key, msg := runProgram(r, pg)
		r.Done()
		nt := false
		for _, m := range fam {
			if len(m) >= 2 {
				nt = true
			}
		}
		if nt {
			r.NonTrivial(fmt.Sprint(pg.Threads))
		}
		calls := 0
		for _, th := range pg.Threads {
			calls += len(th)
		}
		r.Count("programs", 1)
		r.Count("calls_run_concurrently", calls)
		r.Count(fmt.Sprintf("gomaxprocs_%d", pg.Procs), 1)
		r.Count(fmt.Sprintf("goroutines_%02d-%02d", n/4*4, n/4*4+3), 1)
		r.Sample(map[string]any{"gomaxprocs": pg.Procs, "goroutines": n, "calls": calls, "first_thread": pg.Threads[0][:3]})
		r.Check(rt, key == "", key, pg, "%s", msg)
	})
}

func init() {
	ev.Register("TestPrograms", func(t *testing.T, r *ev.Recorder, raw json.RawMessage) {
		var pg program
		if err := json.Unmarshal(raw, &pg); err != nil {
			t.Fatalf("HARNESS-HEALTH: %v", err)
		}
		for i := 0; i < 3; i++ { // schedules are sampled: give the program a few runs
			key, msg := runProgram(r, &pg)
			r.Check(t, key == "", key, &pg, "%s", msg)
		}
	})
}
