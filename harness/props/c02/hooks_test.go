//go:build verif

package c02

import (
	"github.com/theQRL/go-qrllib/xmss"
	"verifharness/seam"
)

func init() {
	snapshot = func(x *xmss.XMSS) []byte { return x.VerifSnapshot() }
	seamOn, seamOff = seam.On, seam.Off
	seamAuthOK = func(x *xmss.XMSS, hf xmss.HashFunction, h int, idx uint32) (bool, int) {
		return seam.Cached(hf, h, x.GetPKSeed()).AuthEqual(idx, x.VerifAuthPath())
	}
}
