// C02 — XMSS: a one-time index is never reused, rewound or exceeded.
// Oracle: the counter automaton of the property (idx in [0,2^h]); refused operations are
// state-preserving; identity getters never change.
package c02

import (
	"bytes"
	"encoding/binary"
	"encoding/json"
	"fmt"
	"testing"

	"github.com/theQRL/go-qrllib/xmss"
	"pgregory.net/rapid"
	"verifharness/ev"
	"verifharness/pu"
)

const prop = "C02"

func TestMain(m *testing.M) {
	ev.Main(m, prop, []ev.Job{
		{Test: "TestCounterAutomaton", Quick: 16, Thorough: 16},
	})
}

func TestReplay(t *testing.T)  { ev.StdReplay(t, prop) }
func TestRegress(t *testing.T) { ev.StdRegress(t, prop) }

// hooks (verif-tagged file)
var snapshot func(x *xmss.XMSS) []byte
var seamOn, seamOff func()
var seamAuthOK func(x *xmss.XMSS, hf xmss.HashFunction, h int, idx uint32) (bool, int)

type op struct {
	Kind string `json:"kind"` // "sign" | "set"
	J    uint32 `json:"j,omitempty"`
	Msg  pu.HB  `json:"msg,omitempty"`
	Why  string `json:"class,omitempty"`
}

type seqCase struct {
	Mode string `json:"mode"` // "real" | "seam"
	Hash uint   `json:"hash"`
	H    int    `json:"h"`
	Seed pu.HB  `json:"seed"`
	Ops  []op   `json:"ops"`
}

type ident struct {
	pk      [67]byte
	addr    [20]byte
	legacy  [39]byte
	seed    [48]byte
	eseed   [51]byte
	mnem    string
	hexseed string
	height  uint8
	root    []byte
	pkseed  []byte
}

func identity(x *xmss.XMSS) ident {
	return ident{x.GetPK(), x.GetAddress(), x.GetLegacyAddress(), x.GetSeed(), x.GetExtendedSeed(), x.GetMnemonic(), x.GetHexSeed(), x.GetHeight(),
		append([]byte{}, x.GetRoot()...), append([]byte{}, x.GetPKSeed()...)}
}

func (a ident) equal(b ident) bool {
	return a.pk == b.pk && a.addr == b.addr && a.legacy == b.legacy && a.seed == b.seed && a.eseed == b.eseed && a.mnem == b.mnem &&
		a.hexseed == b.hexseed && a.height == b.height && bytes.Equal(a.root, b.root) && bytes.Equal(a.pkseed, b.pkseed)
}

type stats struct{ refusedThenSigned, exhaustedThenTried, refusals, signs bool }

func runSeq(r *ev.Recorder, c *seqCase) (key, msg string, st stats) {
	if c.Mode == "seam" {
		if seamOn == nil {
			return "", "", st
		}
		seamOn()
		defer seamOff()
	} else if seamOff != nil {
		seamOff()
	}
	hf := xmss.HashFunction(c.Hash)
	x := pu.NewXMSS(c.Seed, c.H, hf)
	id0 := identity(x)
	limit := uint64(1) << uint(c.H)
	model := uint64(0)
	var emitted []uint32
	var held [][]byte // the signature slices exactly as returned (not copies): what a caller keeps and submits later
	sawRefusal := false
	for n, o := range c.Ops {
		tag := fmt.Sprintf("%s hash=%s h=%d op %d (%s) with model index %d", c.Mode, pu.HashName(hf), c.H, n, describe(o), model)
		skBefore := append([]byte{}, x.GetSK()...)
		var snapBefore []byte
		if snapshot != nil {
			snapBefore = snapshot(x)
		}
		r.Eval(1)
		expectRefusal := false
		var out ev.Outcome
		var sig []byte
		var err error
		if o.Kind == "sign" {
			expectRefusal = model >= limit
			out = ev.Try(func() { sig, err = x.Sign(o.Msg) })
		} else {
			expectRefusal = uint64(o.J) >= limit || uint64(o.J) < model
			out = ev.Try(func() { x.SetIndex(o.J) })
		}
		if out.Panicked && !out.IsString {
			return "runtime-panic", fmt.Sprintf("%s: %s", tag, out), st
		}
		refused := out.Panicked || err != nil
		if expectRefusal {
			if model >= limit {
				st.exhaustedThenTried = true
			}
			if !refused {
				if o.Kind == "sign" {
					return "exhausted-key-signs", fmt.Sprintf("%s: a signature was produced (index field %d) although every leaf is used", tag, binary.BigEndian.Uint32(sig)), st
				}
				return "bad-setindex-accepted", fmt.Sprintf("%s: SetIndex(%d) was accepted (limit %d)", tag, o.J, limit), st
			}
			// refusal must be state-preserving
			if !bytes.Equal(skBefore, x.GetSK()) || uint64(x.GetIndex()) != model {
				return "refusal-changes-state", fmt.Sprintf("%s: refused (%s) but the key changed: GetIndex=%d", tag, out, x.GetIndex()), st
			}
			if snapshot != nil && !bytes.Equal(snapBefore, snapshot(x)) {
				return "refusal-changes-state", fmt.Sprintf("%s: refused (%s) but the traversal state changed", tag, out), st
			}
			st.refusals, sawRefusal = true, true
			r.Count("refused_"+o.Why, 1)
		} else {
			if refused {
				return "valid-op-refused", fmt.Sprintf("%s: refused with %s err=%v", tag, out, err), st
			}
			if o.Kind == "sign" {
				if len(sig) != 2180+32*c.H {
					return "signature-length", fmt.Sprintf("%s: signature length %d", tag, len(sig)), st
				}
				got := binary.BigEndian.Uint32(sig)
				if uint64(got) != model {
					return "index-field", fmt.Sprintf("%s: signature carries index %d", tag, got), st
				}
				if len(emitted) > 0 && got <= emitted[len(emitted)-1] {
					return "index-reused", fmt.Sprintf("%s: emitted index %d after %d", tag, got, emitted[len(emitted)-1]), st
				}
				emitted = append(emitted, got)
				held = append(held, sig)
				if c.Mode == "real" && c.Hash <= 2 {
					pk := x.GetPK()
					if ok, lo := pu.LibXMSSVerify(o.Msg, sig, pk[:]); !ok || !pu.SpecXMSSVerify(o.Msg, sig, pk[:]) {
						return "signature-invalid", fmt.Sprintf("%s: the signature does not verify (%s)", tag, lo), st
					}
				}
				model++
				st.signs = true
				if sawRefusal {
					st.refusedThenSigned = true
				}
			} else {
				model = uint64(o.J)
			}
		}
		if uint64(x.GetIndex()) != model {
			return "getindex", fmt.Sprintf("%s: GetIndex=%d afterwards, model says %d", tag, x.GetIndex(), model), st
		}
		// the signatures handed out earlier are the caller's: their index fields must still be the strictly increasing
		// sequence they were when returned (a later operation that rewrites them makes two held signatures carry one index)
		for k, hs := range held {
			if len(hs) < 4 || binary.BigEndian.Uint32(hs) != emitted[k] {
				return "returned-signature-rewritten", fmt.Sprintf("%s: afterwards the %d-th signature returned earlier (index %d when returned) carries index field %d", tag, k, emitted[k], binary.BigEndian.Uint32(hs)), st
			}
		}
		if !identity(x).equal(id0) {
			return "identity-changed", fmt.Sprintf("%s: public key / address / seed / mnemonic reported by the object changed", tag), st
		}
		if c.Mode == "seam" && model < limit && seamAuthOK != nil {
			if ok, lvl := seamAuthOK(x, hf, c.H, uint32(model)); !ok {
				return "state-corrupted", fmt.Sprintf("%s: afterwards the key's authentication path for index %d is wrong at level %d", tag, model, lvl), st
			}
		}
	}
	return "", "", st
}

func describe(o op) string {
	if o.Kind == "sign" {
		return fmt.Sprintf("Sign(%d bytes)", len(o.Msg))
	}
	return fmt.Sprintf("SetIndex(%d) [%s]", o.J, o.Why)
}

func brief(ops []op) string {
	s := ""
	for _, o := range ops {
		if o.Kind == "sign" {
			s += "S "
		} else {
			s += fmt.Sprintf("->%d ", o.J)
		}
	}
	return s
}

func drawSeq(rt *rapid.T, h int) []op {
	limit := uint64(1) << uint(h)
	n := rapid.IntRange(1, 40).Draw(rt, "nops")
	if h >= 16 {
		n = rapid.IntRange(2, 10).Draw(rt, "nopsTall")
	}
	cur := uint64(0) // generator-side estimate of the index, only used to aim the classes
	var ops []op
	for i := 0; i < n; i++ {
		if rapid.IntRange(0, 9).Draw(rt, "kind") < 5 {
			ops = append(ops, op{Kind: "sign", Msg: pu.Msg(80).Draw(rt, "msg")})
			if cur < limit {
				cur++
			}
			continue
		}
		classes := []string{"same", "forward-small", "last", "forward-random", "back-one", "back-random", "limit", "limit+1", "2^31", "2^32-1", "beyond-random", "near-last"}
		if h >= 18 {
			// a tall key: the index needs its third byte from 2^16 on
			classes = append(classes, "around-2^16", "around-2^16", "around-2^16", "above-2^16", "above-2^16")
		}
		cls := rapid.SampledFrom(classes).Draw(rt, "class")
		var j uint64
		switch cls {
		case "same":
			j = cur
		case "forward-small":
			j = cur + uint64(rapid.IntRange(1, 3).Draw(rt, "d"))
		case "last":
			j = limit - 1
		case "near-last":
			j = limit - 1 - uint64(rapid.IntRange(0, 3).Draw(rt, "d"))
		case "forward-random":
			if cur+1 < limit {
				j = rapid.Uint64Range(cur+1, limit-1).Draw(rt, "j")
			} else {
				j = cur
			}
		case "back-one":
			if cur > 0 {
				j = cur - 1
			}
		case "back-random":
			if cur > 0 {
				j = rapid.Uint64Range(0, cur-1).Draw(rt, "j")
			}
		case "around-2^16":
			j = 65534 + uint64(rapid.IntRange(0, 4).Draw(rt, "d"))
		case "above-2^16":
			j = rapid.Uint64Range(65536, limit-1).Draw(rt, "j")
		case "limit":
			j = limit
		case "limit+1":
			j = limit + 1
		case "2^31":
			j = 1 << 31
		case "2^32-1":
			j = 1<<32 - 1
		default:
			j = rapid.Uint64Range(limit, 1<<32-1).Draw(rt, "j")
		}
		if j > 1<<32-1 {
			j = 1<<32 - 1
		}
		ops = append(ops, op{Kind: "set", J: uint32(j), Why: cls})
		if j < limit && j >= cur {
			cur = j
		}
	}
	return ops
}

func TestCounterAutomaton(t *testing.T) {
	r := ev.New(t, prop, "TestCounterAutomaton")
	r.Rule("rapid op sequences (1..40 ops) over {Sign(m), SetIndex(j)} on one key; j drawn from classes {same, +1..3, last, near-last, random forward, back one, random back, 2^h, 2^h+1, 2^31, 2^32-1, random >= 2^h}; heights 4 (mostly), 6, and 8 / 10 / 18 in cheap-leaf mode (8: the exhausted index 256 no longer fits one byte; 18: every 200th case, with jumps around and above 2^16 where the index needs its third byte); about 1/4 of cases use real hashing (signatures are then also verified); oracle = counter automaton + refusal leaves GetSK/GetIndex/full snapshot unchanged + identity getters constant + (seam) the authentication path stays the reference one; non-trivial = a sequence with a refused operation followed later by a successful signature, or one that exhausts the key and then tries again; distinct by op-sequence")
	checks := r.PerShard(r.Pick(6400, 96000))
	nCase := 0
	r.Rapid(t, "seq", checks, func(rt *rapid.T) {
		c := &seqCase{Mode: "seam", Hash: uint(rapid.SampledFrom(pu.Hashes).Draw(rt, "hash")), H: rapid.SampledFrom([]int{4, 4, 4, 6, 10, 8, 8}).Draw(rt, "h")}
		if seamOn == nil || rapid.IntRange(0, 15).Draw(rt, "real") == 0 {
			c.Mode = "real"
			if c.H >= 8 {
				c.H = 4
			}
		}
		if rapid.IntRange(0, 19).Draw(rt, "oddHash") == 0 {
			// a key object whose descriptor names a hash function id the library has no implementation for can be
			// constructed; the index rules apply to it like to any other key object
			c.Hash = uint(rapid.SampledFrom([]int{3, 5, 15}).Draw(rt, "hashId"))
			c.Mode, c.H = "real", 4
			r.Count("keys_with_unsupported_hash_id", 1)
		}
		c.Seed = pu.DetBytes(uint64(rapid.IntRange(1, 3).Draw(rt, "seedId")), 48)
		nCase++
		if seamOn != nil && c.Mode == "seam" && nCase%200 == 100 {
			// a key of height 18 (cheap-leaf mode): jumps around and above 2^16, where the stored index, the index
			// field of the signature and GetIndex need their third byte
			c.H, c.Seed = 18, pu.DetBytes(1, 48)
		}
		c.Ops = drawSeq(rt, c.H)
		key, msg, st := runSeq(r, c)
		r.Count("mode_"+c.Mode, 1)
		r.Count(fmt.Sprintf("h%02d", c.H), 1)
		if st.refusedThenSigned {
			r.Count("seq_refusal_then_signature", 1)
		}
		if st.exhaustedThenTried {
			r.Count("seq_exhausted_then_tried", 1)
		}
		if st.refusedThenSigned || st.exhaustedThenTried {
			r.NonTrivial(c.Mode, c.Hash, c.H, brief(c.Ops))
		}
		r.Sample(map[string]any{"mode": c.Mode, "h": c.H, "ops": brief(c.Ops)})
		r.Check(rt, key == "", key, c, "%s", msg)
	})
}

func init() {
	ev.Register("TestCounterAutomaton", func(t *testing.T, r *ev.Recorder, raw json.RawMessage) {
		var c seqCase
		if err := json.Unmarshal(raw, &c); err != nil {
			t.Fatalf("HARNESS-HEALTH: %v", err)
		}
		key, msg, _ := runSeq(r, &c)
		r.Check(t, key == "", key, &c, "%s", msg)
	})
}
