// C09 — A wallet is recoverable from every secret it exports.
// Oracle: equality of public key, address, exported secrets and signatures between the original
// key and the key re-created through every route; a sample is also compared with the reference
// models so that "all routes agree on the wrong key" is excluded.
package c09

import (
	"bytes"
	"encoding/hex"
	"encoding/json"
	"fmt"
	"strings"
	"testing"

	"github.com/theQRL/go-qrllib/common"
	"github.com/theQRL/go-qrllib/dilithium"
	"github.com/theQRL/go-qrllib/misc"
	"github.com/theQRL/go-qrllib/qrl"
	"github.com/theQRL/go-qrllib/xmss"
	"pgregory.net/rapid"
	"verifharness/ev"
	"verifharness/pu"
	"verifharness/ref/codecref"
	"verifharness/ref/xmssref"
)

const prop = "C09"

func TestMain(m *testing.M) {
	ev.Main(m, prop, []ev.Job{
		{Test: "TestXMSSRecovery", Quick: 12, Thorough: 16},
		{Test: "TestDilithiumRecovery", Quick: 4, Thorough: 8},
		{Test: "TestFreshKeys", Quick: 4, Thorough: 8},
		{Test: "TestColdRecovery", Quick: 2, Thorough: 2},
	})
}

func TestReplay(t *testing.T)  { ev.StdReplay(t, prop) }
func TestRegress(t *testing.T) { ev.StdRegress(t, prop) }

var seamOn, seamOff func() // verif-tagged file

type xCase struct {
	Mode string  `json:"mode"` // real | seam
	Hash uint    `json:"hash"`
	H    int     `json:"h"`
	Seed pu.HB   `json:"seed"`
	Jump uint32  `json:"jump"`
	Msgs []pu.HB `json:"msgs"`
	// AddrFormat: address-format nibble of the wallet's descriptor (0 = the one defined format; the constructor takes
	// any value and the nibble travels in the extended seed, the mnemonic and the public key)
	AddrFormat uint `json:"addr_format,omitempty"`
	// Given: when set, the original is this externally created key (fresh-randomness constructor)
	given *xmss.XMSS
}

// heldOther returns a wallet with OTHER parameters (height and hash function) than the case's, built once per process
// per parameter set; handling it while the case's wallets are held must not affect them.
var others = map[string]*xmss.XMSS{}

func heldOther(c *xCase) *xmss.XMSS {
	h := 4
	if c.H == 4 {
		h = 6
	}
	hf := xmss.HashFunction((c.Hash + 1) % 3)
	k := fmt.Sprintf("%s/%d/%d", c.Mode, h, hf)
	if o, ok := others[k]; ok {
		return o
	}
	o := pu.NewXMSS(pu.DetBytes(uint64(h)*131+uint64(hf), 48), h, hf)
	others[k] = o
	return o
}

func sameXMSS(tag string, a, b *xmss.XMSS) (string, string) {
	if a.GetPK() != b.GetPK() {
		return "xmss/pk", tag + ": public key differs"
	}
	// addresses: equal, or refused by both in the same way (a wallet whose descriptor names an undefined address
	// format has no address)
	addr := func(k *xmss.XMSS) string {
		var a [20]byte
		var l [39]byte
		oa := ev.Try(func() { a = k.GetAddress() })
		ol := ev.Try(func() { l = k.GetLegacyAddress() })
		return fmt.Sprintf("%x %s | %x %s", a, oa.Text, l, ol.Text)
	}
	if addr(a) != addr(b) {
		return "xmss/address", tag + ": address (or the refusal to derive one) differs"
	}
	if a.GetSeed() != b.GetSeed() || a.GetExtendedSeed() != b.GetExtendedSeed() || a.GetMnemonic() != b.GetMnemonic() || a.GetHexSeed() != b.GetHexSeed() {
		return "xmss/exported-secrets", tag + ": seed / extended seed / mnemonic / hex seed differ"
	}
	if a.GetHeight() != b.GetHeight() || a.GetIndex() != b.GetIndex() || !bytes.Equal(a.GetSK(), b.GetSK()) {
		return "xmss/height-index-sk", tag + ": height, index or secret-key bytes differ"
	}
	return "", ""
}

func runX(r *ev.Recorder, c *xCase) (string, string) {
	if c.Mode == "seam" {
		if seamOn == nil {
			return "", ""
		}
		seamOn()
		defer seamOff()
	} else if seamOff != nil {
		seamOff()
	}
	hf := xmss.HashFunction(c.Hash)
	tag := fmt.Sprintf("%s hash=%s h=%d", c.Mode, pu.HashName(hf), c.H)
	orig := c.given
	if orig == nil {
		if o := ev.Try(func() {
			orig = xmss.NewXMSSFromSeed(pu.Arr48(c.Seed), uint8(c.H), hf, common.AddrFormatType(c.AddrFormat))
		}); o.Panicked {
			return "xmss/constructor-panic", tag + ": " + o.String()
		}
	}
	if int(orig.GetHeight()) != c.H {
		return "xmss/height", fmt.Sprintf("%s: GetHeight = %d", tag, orig.GetHeight())
	}
	// the secrets are exported FIRST and held by the caller while other wallets export theirs; what is held must not change
	heldMnemonic, heldHex := orig.GetMnemonic(), orig.GetHexSeed()
	mnemonicCopy, hexCopy := strings.Clone(heldMnemonic), strings.Clone(heldHex)
	if other := heldOther(c); other != nil {
		_ = other.GetMnemonic()
		_ = other.GetHexSeed()
		_ = other.GetAddress()
	}
	if pk := orig.GetPK(); uint(pk[1]>>4) != c.AddrFormat&15 && c.given == nil {
		return "xmss/descriptor-format-nibble", fmt.Sprintf("%s: wallet created with address format %d carries %d in its public key", tag, c.AddrFormat, pk[1]>>4)
	}
	_ = misc.SeedBinToMnemonic(pu.Arr48(pu.DetBytes(uint64(c.Jump)+3, 48)))
	if heldMnemonic != mnemonicCopy || heldHex != hexCopy {
		return "xmss/exported-secret-changes-later", tag + ": a mnemonic / hex seed string returned earlier changed after other wallets exported theirs"
	}
	routes := map[string]func() *xmss.XMSS{
		"extended-seed": func() *xmss.XMSS { return xmss.NewXMSSFromExtendedSeed(orig.GetExtendedSeed()) },
		"mnemonic": func() *xmss.XMSS {
			return xmss.NewXMSSFromExtendedSeed(misc.MnemonicToExtendedSeedBin(heldMnemonic))
		},
		"hex-seed": func() *xmss.XMSS {
			hs := heldHex
			if !strings.HasPrefix(hs, "0x") {
				panic("hex seed lacks the 0x prefix: " + hs[:4])
			}
			b, err := hex.DecodeString(hs[2:])
			if err != nil || len(b) != 51 {
				panic(fmt.Sprintf("hex seed does not decode to 51 bytes: %v len=%d", err, len(b)))
			}
			var es [51]byte
			copy(es[:], b)
			return xmss.NewXMSSFromExtendedSeed(es)
		},
		"seed+params": func() *xmss.XMSS {
			return xmss.NewXMSSFromSeed(orig.GetSeed(), orig.GetHeight(), hf, common.AddrFormatType(c.AddrFormat))
		},
	}
	var keys []*xmss.XMSS
	var names []string
	for _, name := range []string{"extended-seed", "mnemonic", "hex-seed", "seed+params"} {
		var k *xmss.XMSS
		if o := ev.Try(func() { k = routes[name]() }); o.Panicked {
			return "xmss/route-panic/" + name, fmt.Sprintf("%s: re-creating the key via %s failed: %s", tag, name, o)
		}
		if key, msg := sameXMSS(tag+" via "+name, orig, k); key != "" {
			return key + "/" + name, msg
		}
		keys = append(keys, k)
		names = append(names, name)
		r.Eval(1)
	}
	// the rebuilt wallets are HELD while the process handles other wallets / keys with other parameters
	if other := heldOther(c); other != nil {
		opk := other.GetPK()
		_ = xmss.GetXMSSAddressFromPK(opk)
		_ = xmss.IsValidXMSSAddress(other.GetAddress())
		ev.Try(func() { xmss.Verify([]byte("x"), make([]byte, 2180+32*int(other.GetHeight())), opk) })
		_ = xmss.NewXMSSFromExtendedSeed(other.GetExtendedSeed())
	}
	for i, k := range keys {
		if key, msg := sameXMSS(tag+" via "+names[i]+" (re-checked after other wallets were handled)", orig, k); key != "" {
			return key + "/held/" + names[i], msg
		}
	}
	// signatures: index 0, index 1, and after one forward jump
	last := uint32(1)<<uint(c.H) - 1
	step := func(label string, f func(k *xmss.XMSS) ([]byte, error)) (string, string) {
		want, err := f(orig)
		if err != nil {
			return "xmss/sign-error", fmt.Sprintf("%s: %s on the original: %v", tag, label, err)
		}
		for i, k := range keys {
			got, err := f(k)
			r.Eval(1)
			if err != nil || !bytes.Equal(got, want) {
				return "xmss/signature/" + names[i], fmt.Sprintf("%s: %s differs between the original and the key recovered via %s (err=%v)", tag, label, names[i], err)
			}
		}
		return "", ""
	}
	var key, msg string
	if o := ev.Try(func() {
		if key, msg = step("signature at index 0", func(k *xmss.XMSS) ([]byte, error) { return k.Sign(c.Msgs[0]) }); key != "" {
			return
		}
		if key, msg = step("signature at index 1", func(k *xmss.XMSS) ([]byte, error) { return k.Sign(c.Msgs[1]) }); key != "" {
			return
		}
		j := 2 + c.Jump%(last-1)
		key, msg = step(fmt.Sprintf("signature after SetIndex(%d)", j), func(k *xmss.XMSS) ([]byte, error) { k.SetIndex(j); return k.Sign(c.Msgs[2]) })
	}); o.Panicked {
		return "xmss/sign-panic", tag + ": " + o.String()
	}
	if key != "" {
		return key, msg
	}
	// anchor on the reference model (real hashing, small heights)
	if c.Mode == "real" && c.H <= 6 {
		seed := orig.GetSeed()
		ref := xmssref.NewKey(seed[:], c.H, pu.RefHash(hf))
		pk := orig.GetPK()
		want := pu.RefPK(ref, hf)
		want[1] |= byte(c.AddrFormat&15) << 4 // the descriptor's address-format nibble as the wallet was created
		if !bytes.Equal(pk[:], want) {
			return "xmss/pk-vs-reference", tag + ": all routes agree, but on a public key that differs from the reference model's"
		}
		r.Count("anchored_on_reference", 1)
	}
	return "", ""
}

func TestXMSSRecovery(t *testing.T) {
	r := ev.New(t, prop, "TestXMSSRecovery")
	r.Rule("rapid: seed x 3 hash functions x height (real hashing 4, 6, sometimes 8; 10 in the thorough tier; cheap-leaf mode for heights 12, 14, 16 - and 18, 20 in the thorough tier - so that the larger height nibbles pass through every constructor; one real h=4 wallet in five is created with a non-default address-format nibble 1..15, which must travel through every export and re-creation); the key is re-created from its extended seed, its mnemonic, its hex seed (0x stripped) and from seed+parameters; oracle: identical public key, addresses, exported secrets, and byte-identical signatures at index 0, 1 and after one drawn forward jump; small real keys are also compared with the reference model; non-trivial = every case (4 re-creations, 12 signature comparisons), distinct by (mode,hash,h,seed)")
	checks := r.PerShard(r.Pick(330, 4000))
	r.Rapid(t, "xmss", checks, func(rt *rapid.T) {
		c := &xCase{Mode: "real", Hash: uint(rapid.SampledFrom(pu.Hashes).Draw(rt, "hash")), Seed: pu.Seed48().Draw(rt, "seed"), Jump: rapid.Uint32().Draw(rt, "jump")}
		if seamOn != nil && rapid.IntRange(0, 2).Draw(rt, "seam") == 0 {
			c.Mode = "seam"
			hs := []int{12, 12, 14, 14, 16}
			if r.Thorough() {
				hs = []int{12, 12, 14, 14, 14, 16, 16, 16, 18, 18}
				if rapid.IntRange(0, 24).Draw(rt, "h20") == 0 {
					hs = []int{20}
				}
			}
			c.H = rapid.SampledFrom(hs).Draw(rt, "h")
			c.Jump %= 4096 // keep the fast-forward short at big heights
		} else {
			c.H = rapid.SampledFrom([]int{4, 4, 4, 4, 4, 4, 6, 6, 6, 8, 10}).Draw(rt, "h")
			if c.H >= 8 && (!r.Thorough() && (c.H == 10 || rapid.IntRange(0, 3).Draw(rt, "skip8") != 0)) {
				c.H = 4
			}
			if c.H >= 8 {
				c.Jump %= 64
			}
		}
		for i := 0; i < 3; i++ {
			c.Msgs = append(c.Msgs, pu.Msg(120).Draw(rt, "msg"))
		}
		if c.Mode == "real" && c.H == 4 && rapid.IntRange(0, 4).Draw(rt, "oddFormat") == 0 {
			c.AddrFormat = uint(rapid.IntRange(1, 15).Draw(rt, "af"))
			r.Count("wallets_with_non_default_address_format_nibble", 1)
		}
		key, msg := runX(r, c)
		r.Count(fmt.Sprintf("%s_h%02d", c.Mode, c.H), 1)
		r.NonTrivial(c.Mode, c.Hash, c.H, []byte(c.Seed))
		r.Sample(map[string]any{"mode": c.Mode, "hash": c.Hash, "h": c.H, "seed": pu.Short(c.Seed)})
		r.Check(rt, key == "", key, c, "%s", msg)
	})
}

// ---- Dilithium ----

type dCase struct {
	Seed  pu.HB   `json:"seed"`
	Msgs  []pu.HB `json:"msgs"`
	given *dilithium.Dilithium
}

func runD(r *ev.Recorder, c *dCase) (string, string) {
	orig := c.given
	var err error
	if orig == nil {
		if orig, err = pu.DilKey(c.Seed); err != nil {
			return "dilithium/constructor-error", err.Error()
		}
	}
	heldMnemonic, heldHex := orig.GetMnemonic(), orig.GetHexSeed()
	mnemonicCopy, hexCopy := strings.Clone(heldMnemonic), strings.Clone(heldHex)
	if od, err := pu.DilKey(pu.DetBytes(uint64(len(c.Msgs))+uint64(c.Seed[0])+9, 48)); err == nil {
		_ = od.GetMnemonic()
		_ = od.GetHexSeed()
	}
	if heldMnemonic != mnemonicCopy || heldHex != hexCopy {
		return "dilithium/exported-secret-changes-later", "a mnemonic / hex seed string returned earlier changed after another key exported its own"
	}
	routes := []struct {
		name string
		f    func() (*dilithium.Dilithium, error)
	}{
		{"seed", func() (*dilithium.Dilithium, error) { return dilithium.NewDilithiumFromSeed(orig.GetSeed()) }},
		{"hex-seed", func() (*dilithium.Dilithium, error) {
			hs := heldHex
			if !strings.HasPrefix(hs, "0x") {
				return nil, fmt.Errorf("hex seed lacks the 0x prefix")
			}
			return dilithium.NewDilithiumFromHexSeed(hs[2:])
		}},
		{"mnemonic", func() (*dilithium.Dilithium, error) { return dilithium.NewDilithiumFromMnemonic(heldMnemonic) }},
	}
	for _, rt := range routes {
		var k *dilithium.Dilithium
		var err error
		if o := ev.Try(func() { k, err = rt.f() }); o.Panicked || err != nil {
			return "dilithium/route-fails/" + rt.name, fmt.Sprintf("re-creating the key via %s failed: %s err=%v", rt.name, o, err)
		}
		r.Eval(1)
		if k.GetPK() != orig.GetPK() || k.GetSK() != orig.GetSK() {
			return "dilithium/keys/" + rt.name, "key recovered via " + rt.name + " has a different public or secret key"
		}
		if k.GetAddress() != orig.GetAddress() || k.GetSeed() != orig.GetSeed() || k.GetMnemonic() != orig.GetMnemonic() || k.GetHexSeed() != orig.GetHexSeed() {
			return "dilithium/address-or-secrets/" + rt.name, "key recovered via " + rt.name + " reports a different address / seed / mnemonic"
		}
		for i, m := range c.Msgs {
			s1, e1 := orig.Sign(m)
			s2, e2 := k.Sign(m)
			r.Eval(1)
			if e1 != nil || e2 != nil || s1 != s2 {
				return "dilithium/signature/" + rt.name, fmt.Sprintf("signature of message %d differs between the original and the key recovered via %s", i, rt.name)
			}
		}
	}
	seed := orig.GetSeed()
	if ref := pu.DilRef(seed[:]); true {
		pk := orig.GetPK()
		if !bytes.Equal(pk[:], ref.PK) {
			return "dilithium/pk-vs-reference", "all routes agree, but on a public key that differs from the specification's for the stored seed"
		}
	}
	return "", ""
}

func TestDilithiumRecovery(t *testing.T) {
	r := ev.New(t, prop, "TestDilithiumRecovery")
	r.Rule("rapid seeds: the key is re-created with NewDilithiumFromSeed(GetSeed()), NewDilithiumFromHexSeed(GetHexSeed() without 0x) and NewDilithiumFromMnemonic(GetMnemonic()); oracle: identical pk, sk, address, exported secrets and byte-identical signatures of 3 drawn messages; the public key is also compared with the specification model; non-trivial = every case, distinct by seed")
	checks := r.PerShard(r.Pick(1600, 60000))
	r.Rapid(t, "dil", checks, func(rt *rapid.T) {
		c := &dCase{Seed: pu.Seed48().Draw(rt, "seed")}
		for i := 0; i < 3; i++ {
			c.Msgs = append(c.Msgs, pu.Msg(300).Draw(rt, "msg"))
		}
		key, msg := runD(r, c)
		r.NonTrivial([]byte(c.Seed))
		r.Sample(map[string]any{"seed": pu.Short(c.Seed)})
		r.Check(rt, key == "", key, c, "%s", msg)
	})
}

// TestColdRecovery: restoring a wallet from a written-down mnemonic is typically the FIRST thing a process does.
// The phrase comes from the reference codec; the library has neither generated a key nor encoded anything yet.
func TestColdRecovery(t *testing.T) {
	r := ev.New(t, prop, "TestColdRecovery")
	r.Rule("fresh process: the first library call recovers a wallet from a mnemonic produced by the reference codec (Dilithium in shard 0, XMSS h=4 in shard 1); the recovered public key must equal the reference model's; non-trivial = the first call of the process, distinct by scheme")
	words := qrl.WordList[:]
	if r.Shard()%2 == 0 {
		seed := pu.DetBytes(r.Seed()*19+3, 48)
		phrase, _ := codecref.Encode(seed, words)
		var d *dilithium.Dilithium
		var err error
		o := ev.Try(func() { d, err = dilithium.NewDilithiumFromMnemonic(phrase) })
		c := &dCase{Seed: seed}
		r.Eval(1)
		r.NonTrivial("cold", "dilithium")
		r.Check(t, !o.Panicked && err == nil, "cold/dilithium-mnemonic", c, "NewDilithiumFromMnemonic as the first call of the process: %s err=%v", o, err)
		pk := d.GetPK()
		r.Check(t, bytes.Equal(pk[:], pu.DilRef(seed).PK), "cold/dilithium-pk", c, "recovered public key differs from the specification's")
	} else {
		seed := pu.DetBytes(r.Seed()*23+5, 48)
		es := append([]byte{byte(xmss.SHAKE_128), 2, 0}, seed...)
		phrase, _ := codecref.Encode(es, words)
		var x *xmss.XMSS
		o := ev.Try(func() { x = xmss.NewXMSSFromExtendedSeed(misc.MnemonicToExtendedSeedBin(phrase)) })
		c := &xCase{Mode: "real", Hash: 1, H: 4, Seed: seed}
		r.Eval(1)
		r.NonTrivial("cold", "xmss")
		r.Check(t, !o.Panicked, "cold/xmss-mnemonic", c, "recovering an XMSS wallet from its mnemonic as the first call of the process: %s", o)
		pk := x.GetPK()
		r.Check(t, bytes.Equal(pk[:], pu.RefPK(xmssref.NewKey(seed, 4, xmssref.SHAKE128), xmss.SHAKE_128)), "cold/xmss-pk", c, "recovered public key differs from the reference model's")
	}
	r.Sample(map[string]any{"first_call": "wallet recovery from a mnemonic", "shard": r.Shard()})
}

// ---- keys from fresh randomness ----

func TestFreshKeys(t *testing.T) {
	r := ev.New(t, prop, "TestFreshKeys")
	r.Rule("keys created from OS randomness (dilithium.New(), xmss.NewXMSSFromHeight(h,hash) for 3 hashes x h in {4,6}): the stored seed must regenerate the same key through every route (same oracle as above) and successive keys must have different seeds; these cases are not seed-reproducible: the observed seed is saved in the replay; non-trivial = every key, distinct by observed seed")
	r.Assume("fresh-randomness constructors read crypto/rand: this dimension is not a function of VERIF_SEED; a failure reproduces from the recorded seed")
	freshBatch(t, r, r.PerShard(r.Pick(160, 3000)))
}

func freshBatch(t *testing.T, r *ev.Recorder, n int) {
	seen := map[string]bool{}
	for i := 0; i < n; i++ {
		if i%2 == 0 {
			var d *dilithium.Dilithium
			var err error
			if o := ev.Try(func() { d, err = dilithium.New() }); o.Panicked || err != nil {
				r.Check(t, false, "fresh/dilithium-new-fails", nil, "dilithium.New: %s %v", o, err)
			}
			seed := d.GetSeed()
			c := &dCase{Seed: seed[:], Msgs: []pu.HB{[]byte("fresh"), {}, pu.DetBytes(uint64(i)+1, 137)}, given: d}
			key, msg := runD(r, c)
			r.Check(t, !seen[string(seed[:])], "fresh/seed-repeats", c, "dilithium.New returned the same seed twice")
			seen[string(seed[:])] = true
			r.NonTrivial("d", seed[:])
			r.Count("fresh_dilithium", 1)
			r.Sample(map[string]any{"scheme": "dilithium", "observed_seed": pu.Short(seed[:])})
			r.Check(t, key == "", "fresh/"+key, c, "dilithium.New: %s", msg)
		} else {
			hf := pu.Hashes[(i/2)%3]
			h := []int{4, 4, 6}[(i/6)%3]
			var x *xmss.XMSS
			if o := ev.Try(func() { x = xmss.NewXMSSFromHeight(uint8(h), hf) }); o.Panicked {
				r.Check(t, false, "fresh/xmss-new-fails", nil, "NewXMSSFromHeight: %s", o)
			}
			seed := x.GetSeed()
			c := &xCase{Mode: "real", Hash: uint(hf), H: h, Seed: seed[:], Jump: uint32(i), Msgs: []pu.HB{[]byte("fresh"), {}, pu.DetBytes(uint64(i)+1, 33)}, given: x}
			key, msg := runX(r, c)
			r.Check(t, !seen[string(seed[:])], "fresh/seed-repeats", c, "NewXMSSFromHeight returned the same seed twice")
			seen[string(seed[:])] = true
			r.NonTrivial("x", seed[:])
			r.Count("fresh_xmss", 1)
			r.Sample(map[string]any{"scheme": "xmss", "h": h, "observed_seed": pu.Short(seed[:])})
			r.Check(t, key == "", "fresh/"+key, c, "NewXMSSFromHeight: %s", msg)
		}
	}
}

func init() {
	xf := func(t *testing.T, r *ev.Recorder, raw json.RawMessage) {
		var c xCase
		if err := json.Unmarshal(raw, &c); err != nil {
			t.Fatalf("HARNESS-HEALTH: %v", err)
		}
		key, msg := runX(r, &c)
		r.Check(t, key == "", key, &c, "%s", msg)
	}
	df := func(t *testing.T, r *ev.Recorder, raw json.RawMessage) {
		var c dCase
		if err := json.Unmarshal(raw, &c); err != nil {
			t.Fatalf("HARNESS-HEALTH: %v", err)
		}
		key, msg := runD(r, &c)
		r.Check(t, key == "", key, &c, "%s", msg)
	}
	ev.Register("TestColdRecovery", func(t *testing.T, r *ev.Recorder, raw json.RawMessage) {
		t.Skip("a cold-start case is a property of a fresh process: re-run ./check C09 quick")
	})
	ev.Register("TestXMSSRecovery", xf)
	ev.Register("TestDilithiumRecovery", df)
	ev.Register("TestFreshKeys", func(t *testing.T, r *ev.Recorder, raw json.RawMessage) {
		// fresh-randomness cases do not reproduce from their recorded seed (the defect, if any, is in the
		// constructor that drew the seed): a fresh batch is run instead, which reproduces on any run
		freshBatch(t, r, 24)
	})
}
