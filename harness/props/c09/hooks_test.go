//go:build verif

package c09

import "verifharness/seam"

func init() { seamOn, seamOff = seam.On, seam.Off }
