// C03 — Dilithium: every signature and sealed message verifies.
// Oracle: round trips Sign/Verify, Seal/Open/ExtractMessage/ExtractSignature. Cases are classified
// by the reference signer's trace (number and kind of rejection-loop iterations).
package c03

import (
	"bytes"
	"encoding/json"
	"fmt"
	"testing"

	"github.com/theQRL/go-qrllib/dilithium"
	"pgregory.net/rapid"
	"verifharness/ev"
	"verifharness/pu"
)

const prop = "C03"

func TestMain(m *testing.M) {
	ev.Main(m, prop, []ev.Job{
		{Test: "TestRoundTrips", Quick: 16, Thorough: 16},
	})
}

func TestReplay(t *testing.T)  { ev.StdReplay(t, prop) }
func TestRegress(t *testing.T) { ev.StdRegress(t, prop) }

type rtCase struct {
	Seed pu.HB   `json:"seed"`
	Msgs []pu.HB `json:"msgs"`
	// Trace: classify with the reference signer (expensive; a sample in the quick tier)
	Trace bool `json:"trace,omitempty"`
	// Fresh: the key comes from dilithium.New() (the library's own randomness; Seed is then what the key reports, for
	// the record only - a replay draws a new key through the same constructor)
	Fresh bool `json:"fresh,omitempty"`
}

func runRT(r *ev.Recorder, c *rtCase) (key, msg string) {
	r.Pending(c) // a Sign that never returns is a violation too: the driver re-runs the case alone before saying so
	defer r.Done()
	d, err := pu.DilKey(c.Seed)
	if c.Fresh {
		if d, err = dilithium.New(); err == nil {
			sd := d.GetSeed()
			c.Seed = append(pu.HB{}, sd[:]...)
		}
	}
	if err != nil {
		return "keygen/error", err.Error()
	}
	pk := d.GetPK()
	if c.Fresh {
		// signing is deterministic for every key the library hands out: the same message signs to the same bytes
		// (Seal's prefix == Sign and ExtractSignature(Seal) == Sign below depend on it)
		for i, m := range c.Msgs {
			s1, e1 := d.Sign(m)
			s2, e2 := d.Sign(m)
			if e1 != nil || e2 != nil || s1 != s2 {
				return "fresh/sign-not-repeatable", fmt.Sprintf("key from dilithium.New(): message %d signed twice gives different signatures (%v %v)", i, e1, e2)
			}
		}
	}
	var other [dilithium.CryptoPublicKeyBytes]byte
	if len(c.Msgs) > 0 {
		od, _ := pu.DilKey(append([]byte{1}, c.Seed[1:]...))
		if c.Seed[0] == 1 {
			od, _ = pu.DilKey(append([]byte{2}, c.Seed[1:]...))
		}
		other = od.GetPK()
	}
	var held, heldCopy []byte // a sealed message the caller still holds must not change when the key signs again
	// the caller re-uses ONE message buffer, overwriting it in place between calls (a common pattern)
	maxLen := 0
	for _, m := range c.Msgs {
		if len(m) > maxLen {
			maxLen = len(m)
		}
	}
	shared := make([]byte, maxLen)
	for i, orig := range c.Msgs {
		copy(shared, orig)
		m := shared[:len(orig)]
		if i%2 == 1 {
			// odd positions: the message is a slice with sentinel-filled spare capacity behind it
			var intact func() bool
			m, intact = pu.GuardN(orig, []int{64, 4595, 8192}[i%3])
			defer func(i int) {
				if !intact() && key == "" {
					key, msg = "sign/writes-behind-message", fmt.Sprintf("message %d: Sign/Seal/Verify/Open wrote into the caller's slice or the spare capacity behind it", i)
				}
			}(i)
		}
		tag := fmt.Sprintf("message %d (%d bytes, passed in a re-used buffer)", i, len(m))
		if held != nil && !bytes.Equal(held, heldCopy) {
			return "seal/changes-after-later-call", fmt.Sprintf("the sealed message returned for message %d was modified by a later Sign/Seal call", i-1)
		}
		m0 := append([]byte{}, m...)
		var sig [dilithium.CryptoBytes]byte
		var sealed []byte
		var e1, e2 error
		if o := ev.Try(func() { sig, e1 = d.Sign(m); sealed, e2 = d.Seal(m) }); o.Panicked || e1 != nil || e2 != nil {
			return "sign/panic-or-error", fmt.Sprintf("%s: %s %v %v", tag, o, e1, e2)
		}
		r.Eval(1)
		if !bytes.Equal(m, m0) {
			return "sign/modifies-message", tag + ": Sign/Seal modified the caller's message"
		}
		if !dilithium.Verify(m, sig, &pk) {
			return "verify/rejects-own-signature", tag + ": Verify(msg, Sign(msg), pk) is false"
		}
		if len(sealed) != dilithium.CryptoBytes+len(m) {
			return "seal/length", fmt.Sprintf("%s: sealed length %d", tag, len(sealed))
		}
		opened := dilithium.Open(sealed, &pk)
		if opened == nil {
			// nil is how Open says "invalid"; a caller cannot tell a valid sealed (even empty) message from a forgery then
			return "open/nothing-for-valid", fmt.Sprintf("%s: Open(Seal(msg)) returned nil, its answer for an invalid sealed message", tag)
		}
		if !bytes.Equal(opened, m) {
			return "open/differs", fmt.Sprintf("%s: Open(Seal(msg)) returned %d bytes, not the message", tag, len(opened))
		}
		if len(m) == 0 {
			// the empty message handed over as a nil slice (an unset variable) is the same message
			sn, en := d.Sign(nil)
			if en != nil || sn != sig || !dilithium.Verify(nil, sig, &pk) {
				return "empty/nil-message-differs", fmt.Sprintf("%s: Sign(nil) == Sign(empty): %v (err %v), Verify(nil, sig) = %v", tag, sn == sig, en, dilithium.Verify(nil, sig, &pk))
			}
			if sl, el := d.Seal(nil); el != nil || !bytes.Equal(sl, sealed) || dilithium.Open(sl, &pk) == nil {
				return "empty/nil-message-differs", fmt.Sprintf("%s: Seal(nil) differs from Seal(empty) or does not open (err %v)", tag, el)
			}
			r.Count("empty_message_also_as_nil", 1)
		}
		if !bytes.Equal(dilithium.ExtractSignature(sealed), sig[:]) {
			return "extract/signature", tag + ": ExtractSignature(Seal(msg)) != Sign(msg)"
		}
		if !bytes.Equal(dilithium.ExtractMessage(sealed), m) {
			return "extract/message", tag + ": ExtractMessage(Seal(msg)) != msg"
		}
		// sanity of the positive checks: the same signature is not accepted under another key
		if dilithium.Verify(m, sig, &other) || len(dilithium.Open(sealed, &other)) != 0 {
			return "verify/accepts-under-other-key", tag + ": signature accepted under an unrelated public key"
		}
		attempts := 0
		if c.Trace {
			_, trace := pu.DilRef(c.Seed).Sign(m, "")
			ti := pu.Classify(trace)
			attempts = ti.Attempts
			r.Count("traced_signatures", 1)
			if ti.Attempts == 1 {
				r.Count("exit_immediate_acceptance", 1)
			}
			for k, v := range ti.Rejects {
				r.Count("exit_reject_"+k, v)
			}
			if ti.Attempts > 1 {
				r.NonTrivial("rt", []byte(c.Seed), []byte(m))
			}
		}
		_ = attempts
		r.Count(lenClass(len(m)), 1)
		held, heldCopy = sealed, append([]byte{}, sealed...)
	}
	if held != nil && !bytes.Equal(held, heldCopy) {
		return "seal/changes-after-later-call", "the last sealed message was modified after it was returned"
	}
	return "", ""
}

func lenClass(n int) string {
	switch {
	case n == 0:
		return "len_0"
	case n <= 64:
		return "len_1-64"
	case n <= 272:
		return "len_65-272"
	case n <= 4096:
		return "len_273-4096"
	}
	return "len_4097+"
}

func TestRoundTrips(t *testing.T) {
	r := ev.New(t, prop, "TestRoundTrips")
	r.Rule("rapid: 48-byte seeds (uniform, all-zero, all-0xFF, low entropy; one key in 40 comes from dilithium.New() instead and must also sign repeatably) x 4 messages (length 0, 1, SHAKE-rate boundaries 135..137 / 271..273, up to 64 KiB; random and constant content); oracle: Verify(msg,Sign(msg),pk), Open(Seal(msg))==msg (the empty message also handed over as nil), ExtractSignature/ExtractMessage, Seal prefix == Sign, not accepted under another key; a sample of cases is classified by the reference signer's trace; non-trivial = (traced) signature that needed at least one rejection-loop iteration, distinct by (seed,msg)")
	r.Assume("the number of rejection-loop iterations is taken from the reference signer's trace of the same (seed,msg); C07 establishes that the library walks the same path (byte-identical output)")
	checks := r.PerShard(r.Pick(5000, 250000))
	n := 0
	r.Rapid(t, "rt", checks, func(rt *rapid.T) {
		n++
		c := &rtCase{Seed: pu.Seed48().Draw(rt, "seed"), Trace: n%6 == 0 || r.Thorough() && n%20 == 0}
		for i := 0; i < 4; i++ {
			if big := rapid.IntRange(0, 39).Draw(rt, "big"); big == 0 {
				c.Msgs = append(c.Msgs, pu.DetBytes(rapid.Uint64().Draw(rt, "hugeContent"), rapid.SampledFrom([]int{65535, 65536, 65537, 100000, 131072, 262145}).Draw(rt, "hugeLen")))
			} else if big <= 2 {
				c.Msgs = append(c.Msgs, pu.Msg(65536).Draw(rt, "msg"))
			} else {
				c.Msgs = append(c.Msgs, pu.Msg(600).Draw(rt, "msg"))
			}
			if i > 0 && rapid.IntRange(0, 2).Draw(rt, "sameLen") == 0 {
				// same length as the previous message, different content (in-place overwrite of the caller's buffer)
				prev := c.Msgs[i-1]
				m := pu.DetBytes(rapid.Uint64().Draw(rt, "sameLenContent"), len(prev))
				if len(m) > 0 && bytes.Equal(m, prev) {
					m[0] ^= 1
				}
				c.Msgs[i] = m
			}
		}
		if n%40 == 7 {
			c.Fresh, c.Trace = true, false
			r.Count("keys_from_dilithium_New", 1)
		}
		key, msg := runRT(r, c)
		r.Sample(map[string]any{"seed": pu.Short(c.Seed), "msg_lens": []int{len(c.Msgs[0]), len(c.Msgs[1]), len(c.Msgs[2]), len(c.Msgs[3])}})
		r.Check(rt, key == "", key, c, "%s", msg)
	})
}

func init() {
	ev.Register("TestRoundTrips", func(t *testing.T, r *ev.Recorder, raw json.RawMessage) {
		var c rtCase
		if err := json.Unmarshal(raw, &c); err != nil {
			t.Fatalf("HARNESS-HEALTH: %v", err)
		}
		c.Trace = true
		key, msg := runRT(r, &c)
		r.Check(t, key == "", key, &c, "%s", msg)
	})
}
