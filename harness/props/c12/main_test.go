// C12 — Dilithium ring arithmetic is exact on its whole operating domain.
// Every engine needs the build-tagged aliases of the unexported functions (c12_hooked_test.go).
package c12

import (
	"testing"

	"verifharness/ev"
)

const prop = "C12"

func TestMain(m *testing.M) {
	ev.Main(m, prop, []ev.Job{
		{Test: "TestRoundingAllResidues", Quick: 8, Thorough: 8},
		{Test: "TestMakeHintDomain", Quick: 8, Thorough: 8},
		{Test: "TestReduce32AllInt32", Quick: 16, Thorough: 16},
		{Test: "TestMontgomery", Quick: 4, Thorough: 16},
		{Test: "TestNTTProducts", Quick: 8, Thorough: 16},
		{Test: "TestChkNorm", Quick: 2, Thorough: 8},
		{Test: "TestColdStart", Quick: 8, Thorough: 8},
	})
}

func TestReplay(t *testing.T)  { ev.StdReplay(t, prop) }
func TestRegress(t *testing.T) { ev.StdRegress(t, prop) }
