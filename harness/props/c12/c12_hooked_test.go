//go:build verif

package c12

import (
	"encoding/json"
	"fmt"
	"testing"

	"github.com/theQRL/go-qrllib/dilithium"
	"pgregory.net/rapid"
	"verifharness/ev"
	"verifharness/ref/dilref"
)

const (
	q      = dilref.Q
	gamma2 = dilref.Gamma2
	alpha  = 2 * gamma2
	d      = dilref.D
)

func abs64(a int64) int64 {
	if a < 0 {
		return -a
	}
	return a
}

// ---- scalar cases (replayable) ----

type scalarCase struct {
	Func string `json:"func"`
	A    int64  `json:"a"`
	B    int64  `json:"b,omitempty"`
}

// checkScalar evaluates one function on one operand against its mathematical definition.
// checkScalar: a routine that faults on an operand of its domain (a division by zero, an index out of a table) is a
// violation for that operand, not a crash of the sweep.
func checkScalar(c *scalarCase) (key, msg string) {
	defer func() {
		if v := recover(); v != nil {
			key, msg = c.Func+"/fault", fmt.Sprintf("%s(%d,%d) raised %v", c.Func, c.A, c.B, v)
		}
	}()
	return checkScalarInner(c)
}

func checkScalarInner(c *scalarCase) (string, string) {
	a := int32(c.A)
	switch c.Func {
	case "power2Round":
		a1, a0 := dilithium.VerifPower2Round(a)
		r1, r0 := dilref.Power2Round(c.A)
		if int64(a1) != r1 || int64(a0) != r0 || int64(a1)<<d+int64(a0) != c.A || !(int64(a0) > -(1<<(d-1)) && int64(a0) <= 1<<(d-1)) {
			return "power2Round", fmt.Sprintf("power2Round(%d) = (%d,%d), definition gives (%d,%d)", c.A, a1, a0, r1, r0)
		}
	case "decompose":
		a1, a0 := dilithium.VerifDecompose(a)
		r1, r0 := dilref.Decompose(c.A)
		ok := int64(a1) == r1 && int64(a0) == r0 && a1 >= 0 && a1 < 16 && dilref.Mod(int64(a1)*alpha+int64(a0)) == c.A && int64(a0) > -gamma2-1 && int64(a0) <= gamma2
		if !ok {
			return "decompose", fmt.Sprintf("decompose(%d) = (%d,%d), definition gives (%d,%d)", c.A, a1, a0, r1, r0)
		}
	case "useHint0", "useHint1":
		h := int(c.Func[7] - '0')
		got := dilithium.VerifUseHint(a, h)
		want := dilref.UseHint(int64(h), c.A)
		if int64(got) != want {
			return "useHint", fmt.Sprintf("useHint(%d,%d) = %d, definition gives %d", c.A, h, got, want)
		}
	case "makeHint":
		// A = a0, B = a1
		got := dilithium.VerifMakeHint(int32(c.A), int32(c.B))
		r := dilref.Mod(c.B*alpha + c.A)
		want := int64(0)
		if dilref.HighBits(r) != c.B {
			want = 1
		}
		if int64(got) != want {
			return "makeHint", fmt.Sprintf("makeHint(a0=%d,a1=%d) = %d but HighBits(a1*2*gamma2+a0 mod q)=%d (hint should be %d)", c.A, c.B, got, dilref.HighBits(r), want)
		}
	case "hintLemma":
		// A = v in [0,q) (plays w - cs2), B = e (plays c*t0, |e| < gamma2): the hint computed the way the signer does must let
		// the verifier recover HighBits(v) from v+e
		v1, v0 := dilref.Decompose(c.A)
		hint := dilithium.VerifMakeHint(int32(v0+c.B), int32(v1))
		rec := dilithium.VerifUseHint(int32(dilref.Mod(c.A+c.B)), int(hint))
		if int64(rec) != v1 {
			return "hintLemma", fmt.Sprintf("v=%d e=%d: makeHint(%d,%d)=%d, useHint(v+e)=%d, HighBits(v)=%d", c.A, c.B, v0+c.B, v1, hint, rec, v1)
		}
	case "reduce32":
		got := int64(dilithium.VerifReduce32(a))
		hi := int64(6283007)
		if c.A == 1<<31-1<<22-1 {
			hi++ // the single end point of the domain gives 6283008 (see DESIGN.md 4.3); no caller can produce this operand
		}
		if dilref.Mod(got) != dilref.Mod(c.A) || got < -6283009 || got > hi {
			return "reduce32", fmt.Sprintf("reduce32(%d) = %d: not congruent or outside [-6283009, 6283007]", c.A, got)
		}
	case "cAddQ":
		got := int64(dilithium.VerifCAddQ(a))
		want := c.A
		if c.A < 0 {
			want += q
		}
		if got != want {
			return "cAddQ", fmt.Sprintf("cAddQ(%d) = %d, want %d", c.A, got, want)
		}
	case "montgomeryReduce":
		t := int64(dilithium.VerifMontgomeryReduce(c.A))
		lhs := dilref.Mod(dilref.Mod(t) * ((1 << 32) % q))
		if lhs != dilref.Mod(c.A) || t <= -q || t >= q {
			return "montgomeryReduce", fmt.Sprintf("montgomeryReduce(%d) = %d: t*2^32 mod q = %d, a mod q = %d", c.A, t, lhs, dilref.Mod(c.A))
		}
	}
	return "", ""
}

func nearAny(x int64, pts ...int64) bool {
	for _, p := range pts {
		if abs64(x-p) <= 2 {
			return true
		}
	}
	return false
}

func TestRoundingAllResidues(t *testing.T) {
	r := ev.New(t, prop, "TestRoundingAllResidues")
	r.Rule("ALL 8380417 residues a in [0,q): power2Round, decompose, useHint(a,0), useHint(a,1) compared with the defining equations (dilref) incl. the q-1 wrap; plus the signer/verifier hint lemma for all residues x 9 boundary values of e; non-trivial = operand within 2 of a rounding boundary of the function, counted exactly during the sweep")
	nt := 0
	lo, hi := int64(r.Shard())*q/int64(r.NShards()), int64(r.Shard()+1)*q/int64(r.NShards())
	es := []int64{-(gamma2 - 1), -(gamma2 - 2), -2, -1, 0, 1, 2, gamma2 - 2, gamma2 - 1}
	for a := lo; a < hi; a++ {
		for _, f := range []string{"power2Round", "decompose", "useHint0", "useHint1"} {
			c := scalarCase{Func: f, A: a}
			if key, msg := checkScalar(&c); key != "" {
				r.Check(t, false, key, &c, "%s", msg)
			}
		}
		for _, e := range es {
			c := scalarCase{Func: "hintLemma", A: a, B: e}
			if key, msg := checkScalar(&c); key != "" {
				r.Check(t, false, key, &c, "%s", msg)
			}
		}
		m13 := a % (1 << d)
		ma := a % alpha
		if nearAny(m13, 1<<(d-1)) || nearAny(ma, gamma2, 0, alpha-1) || a >= q-1-gamma2-2 && nearAny(a, q-1, q-1-gamma2) {
			nt++
		}
	}
	r.Eval(int(hi-lo) * 13)
	r.NonTrivialEnum(nt)
	r.Count("residues", int(hi-lo))
	r.Sample(map[string]any{"residues": fmt.Sprintf("[%d,%d)", lo, hi), "functions": "power2Round, decompose, useHint(.,0), useHint(.,1), hint lemma x 9 e-values"})
	r.Exhaustive("all residues mod q for power2Round / decompose / useHint / hint lemma")
}

func TestMakeHintDomain(t *testing.T) {
	r := ev.New(t, prop, "TestMakeHintDomain")
	r.Rule("makeHint(a0,a1) for ALL a1 in 0..15 x ALL a0 with |a0| < 2*gamma2-beta (what the signer can feed it: |w0-cs2| < gamma2-beta plus |ct0| < gamma2) compared with [HighBits(a1*2*gamma2 + a0 mod q) != a1]; non-trivial = |a0| within 2 of gamma2, counted exactly")
	lim := int64(2*gamma2 - dilref.Beta)
	nt, n := 0, 0
	for a1 := int64(0); a1 < 16; a1++ {
		if !r.Mine(int(a1)) {
			continue
		}
		for a0 := -lim + 1; a0 < lim; a0++ {
			c := scalarCase{Func: "makeHint", A: a0, B: a1}
			if key, msg := checkScalar(&c); key != "" {
				r.Check(t, false, key, &c, "%s", msg)
			}
			n++
			if nearAny(abs64(a0), gamma2) {
				nt++
			}
		}
	}
	r.Eval(n)
	r.NonTrivialEnum(nt)
	r.Sample(map[string]any{"a1": "0..15", "a0": fmt.Sprintf("(-%d,%d)", lim, lim)})
	r.Exhaustive("makeHint on its whole signer-reachable domain (16 x 1047311 operand pairs)")
}

func TestReduce32AllInt32(t *testing.T) {
	r := ev.New(t, prop, "TestReduce32AllInt32")
	r.Rule("reduce32 on ALL int32 a <= 2^31-2^22-1 (its documented domain): congruent to a mod q and within [-6283009, 6283007]; cAddQ on ALL 2^32 int32 values: a+q for a<0, a otherwise; non-trivial = a within 2 of a multiple of q shifted by 2^22 (the rounding boundary of reduce32), of 0 or of the domain ends, counted exactly")
	const maxA = int64(1)<<31 - int64(1)<<22 - 1
	total := int64(1) << 32
	lo := -int64(1)<<31 + int64(r.Shard())*total/int64(r.NShards())
	hi := -int64(1)<<31 + int64(r.Shard()+1)*total/int64(r.NShards())
	nt := 0
	n := 0
	for a := lo; a < hi; a++ {
		a32 := int32(a)
		// inlined for speed; failures are re-derived through checkScalar for the message
		if got := int64(dilithium.VerifCAddQ(a32)); (a < 0 && got != a+q) || (a >= 0 && got != a) {
			c := scalarCase{Func: "cAddQ", A: a}
			key, msg := checkScalar(&c)
			r.Check(t, false, key, &c, "%s", msg)
		}
		n++
		if a <= maxA {
			got := int64(dilithium.VerifReduce32(a32))
			if got < -6283009 || (got > 6283007 && a != maxA) || (got-a)%q != 0 {
				c := scalarCase{Func: "reduce32", A: a}
				key, msg := checkScalar(&c)
				r.Check(t, key == "", key, &c, "%s", msg)
			}
			n++
			// rounding boundary: (a + 2^22) crosses a multiple of 2^23
			if m := (a + (1 << 22)) & (1<<23 - 1); m <= 2 || m >= 1<<23-2 {
				nt++
			}
		}
		if a >= -2 && a <= 2 {
			nt++
		}
	}
	r.Eval(n)
	r.NonTrivialEnum(nt)
	r.Sample(map[string]any{"range": fmt.Sprintf("[%d,%d)", lo, hi)})
	r.Assume("reduce32: the upper end point a = 2^31-2^22-1 of the documented domain yields 6283008, one above the documented bound; congruence is still asserted there, the operand is unreachable for any caller (coefficients stay below ~2^27)")
	r.Exhaustive("reduce32 on every int32 of its documented domain; cAddQ on every int32")
}

func TestMontgomery(t *testing.T) {
	r := ev.New(t, prop, "TestMontgomery")
	r.Rule("montgomeryReduce on rapid int64 operands in [-2^31*q, 2^31*q), biased to both ends, to products of two int32, to multiples of q and of 2^32, and to zeta*coefficient products: t*2^32 == a (mod q) and -q < t < q; non-trivial = operand within 2^33 of a domain end, or an exact multiple of q or 2^32, distinct by operand")
	r.Assume("domain is half-open: a = 2^31*q itself (needs the int32 factor -2^31, which no caller can produce) yields exactly q and is excluded (1 operand)")
	zetas := dilithium.VerifZetas()
	const lim = int64(1) << 31 * q
	checks := r.PerShard(r.Pick(400000, 40000000))
	r.Rapid(t, "mont", checks, func(rt *rapid.T) {
		var a int64
		nt := false
		switch rapid.IntRange(0, 6).Draw(rt, "kind") {
		case 0:
			a = rapid.Int64Range(-lim, lim-1).Draw(rt, "a")
		case 1:
			a = lim - 1 - rapid.Int64Range(0, 1<<33).Draw(rt, "off")
			nt = true
		case 2:
			a = -lim + rapid.Int64Range(0, 1<<33).Draw(rt, "off")
			nt = true
		case 3:
			a = int64(rapid.Int32().Draw(rt, "x")) * int64(rapid.Int32Range(-q+1, q-1).Draw(rt, "y"))
		case 4:
			a = rapid.Int64Range(-(1<<31)+1, 1<<31-1).Draw(rt, "k") * q
			nt = true
		case 5:
			a = rapid.Int64Range(-q/2, q/2).Draw(rt, "k") << 32
			nt = true
		default:
			a = int64(zetas[rapid.IntRange(1, 255).Draw(rt, "k")]) * int64(rapid.Int32Range(-9*q, 9*q).Draw(rt, "coeff"))
		}
		if a >= lim {
			a = lim - 1
		}
		if a < -lim {
			a = -lim
		}
		c := scalarCase{Func: "montgomeryReduce", A: a}
		key, msg := checkScalar(&c)
		r.Eval(1)
		if nt {
			r.NonTrivial("mont", a)
		}
		r.Sample(c)
		r.Check(rt, key == "", key, &c, "%s", msg)
	})
}

// ---- polynomial cases ----

type polyCase struct {
	Kind string  `json:"kind"`
	A    []int32 `json:"a"`
	B    []int32 `json:"b,omitempty"`
	Bnd  int32   `json:"bound,omitempty"`
}

func toRef(a []int32) (p dilref.Poly) {
	for i := range p {
		p[i] = dilref.Mod(int64(a[i]))
	}
	return
}

func checkPoly(c *polyCase) (string, string) {
	var a, b [256]int32
	copy(a[:], c.A)
	copy(b[:], c.B)
	switch c.Kind {
	case "product":
		ra, rb := toRef(c.A), toRef(c.B)
		want := dilref.MulSchool(&ra, &rb)
		na, nb := a, b
		dilithium.VerifNTT(&na)
		dilithium.VerifNTT(&nb)
		var prod [256]int32
		dilithium.VerifPointwise(&prod, &na, &nb)
		// the same product written into an output that already holds other data (the library re-uses its temporaries)
		dirty := nb
		for i := range dirty {
			dirty[i] = dirty[i]*3 + 7
		}
		dilithium.VerifPointwiseInto(&dirty, &na, &nb)
		if dirty != prod {
			for i := range dirty {
				if dirty[i] != prod[i] {
					return "pointwise-depends-on-output", fmt.Sprintf("pointwise product slot %d: %d into a fresh output, %d into an output that held other data (operands %d, %d)", i, prod[i], dirty[i], na[i], nb[i])
				}
			}
		}
		dilithium.VerifInvNTTToMont(&prod)
		for i := range prod {
			if dilref.Mod(int64(prod[i])) != want[i] || abs64(int64(prod[i])) >= q {
				return "ntt-product", fmt.Sprintf("invNTT(ntt(a) o ntt(b))[%d] = %d, negacyclic schoolbook product gives %d (mod q)", i, prod[i], want[i])
			}
		}
		// forward transform alone: slot-wise evaluation a(r_i)
		ev := dilref.NTT(&ra)
		for i := range na {
			if dilref.Mod(int64(na[i])) != ev[i] {
				return "ntt-forward", fmt.Sprintf("ntt(a)[%d] = %d, evaluation at the %d-th root gives %d", i, na[i], i, ev[i])
			}
			if abs64(int64(na[i])) >= 9*q {
				return "ntt-forward-bound", fmt.Sprintf("ntt(a)[%d] = %d exceeds the documented 9q bound", i, na[i])
			}
		}
		// inverse alone: invNTTToMont(ntt(a)) == a * 2^32
		back := na
		dilithium.VerifPolyReduce(&back)
		dilithium.VerifInvNTTToMont(&back)
		for i := range back {
			if dilref.Mod(int64(back[i])) != dilref.Mod(ra[i]*((1<<32)%q)) {
				return "ntt-inverse", fmt.Sprintf("invNTTToMont(ntt(a))[%d] = %d, want a[%d]*2^32 mod q", i, back[i], i)
			}
		}
	case "transforms-direct":
		// A is taken as it is (zeros planted by the generator): forward transform against literal evaluation,
		// inverse transform against literal interpolation (times 2^32), no product in between
		ra := toRef(c.A)
		fw := a
		dilithium.VerifNTT(&fw)
		evs := dilref.NTT(&ra)
		for i := range fw {
			if dilref.Mod(int64(fw[i])) != evs[i] {
				return "ntt-forward", fmt.Sprintf("ntt(a)[%d] = %d, evaluation gives %d (input has zeros at planted positions)", i, fw[i], evs[i])
			}
		}
		inv := a
		dilithium.VerifPolyReduce(&inv)
		rin := toRef(inv[:])
		want := dilref.INTT(&rin)
		dilithium.VerifInvNTTToMont(&inv)
		for i := range inv {
			if dilref.Mod(int64(inv[i])) != dilref.Mod(want[i]*((1<<32)%q)) {
				return "ntt-inverse", fmt.Sprintf("invNTTToMont(a)[%d] = %d, interpolation*2^32 gives %d (input has zeros at planted positions)", i, inv[i], dilref.Mod(want[i]*((1<<32)%q)))
			}
		}
		// the inverse transform's documented domain is |coefficient| < q, NOT only reduced values: the same input
		// unreduced (all +(q-1) makes the eight unreduced layers reach 256(q-1), just below 2^31)
		raw := a
		inDomain := true
		for _, x := range raw {
			if x <= -q || x >= q {
				inDomain = false
			}
		}
		if inDomain {
			dilithium.VerifInvNTTToMont(&raw)
			for i := range raw {
				if dilref.Mod(int64(raw[i])) != dilref.Mod(want[i]*((1<<32)%q)) {
					return "ntt-inverse-unreduced-input", fmt.Sprintf("invNTTToMont on unreduced input (|x| < q) [%d] = %d, interpolation*2^32 gives %d", i, raw[i], dilref.Mod(want[i]*((1<<32)%q)))
				}
				if raw[i] <= -q || raw[i] >= q {
					return "ntt-inverse-unreduced-input", fmt.Sprintf("invNTTToMont output [%d] = %d is not within (-q, q)", i, raw[i])
				}
			}
		}
	case "chknorm":
		got := dilithium.VerifPolyChkNorm(&a, c.Bnd)
		want := 0
		if c.Bnd > (q-1)/8 {
			want = 1
		} else {
			for _, x := range c.A {
				if abs64(dilref.Centre(int64(x))) >= int64(c.Bnd) {
					want = 1
				}
			}
		}
		if got != want {
			return "chknorm", fmt.Sprintf("polyChkNorm(B=%d) = %d, max centred |coefficient| test gives %d", c.Bnd, got, want)
		}
	}
	return "", ""
}

func drawPoly(rt *rapid.T, label string) []int32 {
	p := make([]int32, 256)
	kind := rapid.SampledFrom([]string{"uniform", "all+(q-1)", "all-(q-1)", "alternating", "sparse+-1", "eta", "gamma1", "t1shifted", "single", "linear-factor"}).Draw(rt, label+"Kind")
	x := rapid.Uint64().Draw(rt, label+"Seed") | 1
	next := func(n int64) int64 { x ^= x << 13; x ^= x >> 7; x ^= x << 17; return int64(x>>1) % n }
	for i := range p {
		switch kind {
		case "uniform":
			p[i] = int32(next(2*q-1) - (q - 1))
		case "all+(q-1)":
			p[i] = q - 1
		case "all-(q-1)":
			p[i] = -(q - 1)
		case "alternating":
			p[i] = (q - 1) * int32(1-2*(i%2))
		case "sparse+-1":
			if next(4) == 0 {
				p[i] = int32(1 - 2*next(2))
			}
		case "eta":
			p[i] = int32(next(5) - 2)
		case "gamma1":
			p[i] = int32(next(2*dilref.Gamma1) - dilref.Gamma1 + 1)
		case "t1shifted":
			p[i] = int32(next(1024) << 13)
		case "single":
		}
	}
	if kind == "single" {
		p[next(256)] = int32(next(2*q-1) - (q - 1))
	}
	if kind == "linear-factor" {
		// X - r for an evaluation point r: its transform has an exact zero in one slot
		for i := range p {
			p[i] = 0
		}
		ev := dilref.NTT(&dilref.Poly{0, 1}) // slot m holds the m-th evaluation point
		p[0], p[1] = int32(dilref.Centre(-ev[next(256)])), 1
	}
	return p
}

func TestNTTProducts(t *testing.T) {
	r := ev.New(t, prop, "TestNTTProducts")
	r.Rule("rapid polynomial pairs with |coefficient| < q: uniform, all +-(q-1), alternating, sparse +-1 (challenge-like), eta-small, gamma1-sized, t1*2^13-sized, single monomial; oracles: invNTTToMont(ntt(a) o ntt(b)) == schoolbook negacyclic product mod q with |result| < q; ntt(a) slot-wise == a(r_i) (literal evaluation) with |.| < 9q; invNTTToMont(ntt(a)) == a*2^32; the transforms applied directly to such data (with 0..6 planted exact zeros; the inverse on reduced AND on unreduced input with |x| < q, e.g. all +(q-1)) == literal evaluation / interpolation; the zeta table equals 2^32*1753^brv(k) mod q; non-trivial = every pair (256 coefficients x 3 relations), distinct by content")
	// zeta table (finite, exhaustive)
	z := dilithium.VerifZetas()
	if r.Shard() == 0 {
		for k := 1; k < 256; k++ {
			want := dilref.Centre(powmod(1753, int64(brv8(k))) * ((1 << 32) % q))
			r.Check(t, int64(z[k]) == want, "zetas", map[string]any{"k": k, "got": z[k], "want": want}, "zetas[%d] = %d, want %d", k, z[k], want)
			r.Eval(1)
		}
		r.Exhaustive("all 255 twiddle factors")
	}
	checks := r.PerShard(r.Pick(2400, 100000))
	r.Rapid(t, "ntt", checks, func(rt *rapid.T) {
		c := &polyCase{Kind: "product", A: drawPoly(rt, "a"), B: drawPoly(rt, "b")}
		if rapid.IntRange(0, 2).Draw(rt, "direct") == 0 {
			// dense data with exact zeros planted at drawn slots (odd, even, first, last)
			c = &polyCase{Kind: "transforms-direct", A: drawPoly(rt, "a")}
			for k := rapid.IntRange(0, 6).Draw(rt, "zeros"); k > 0; k-- {
				c.A[rapid.SampledFrom([]int{0, 1, 2, 3, 7, 127, 128, 129, 200, 254, 255, -1}).Draw(rt, "slot")&255] = 0
			}
			if c.A[0] == 0 && rapid.Bool().Draw(rt, "randomSlot") {
				c.A[rapid.IntRange(0, 255).Draw(rt, "anySlot")] = 0
			}
			r.Count("direct_transform_cases_with_planted_zeros", 1)
		}
		key, msg := checkPoly(c)
		r.Eval(1)
		r.NonTrivial("ntt", c.Kind, fmt.Sprint(c.A[:8], len(c.B)))
		r.Sample(map[string]any{"kind": c.Kind, "a_first8": c.A[:8]})
		r.Check(rt, key == "", key, c, "%s", msg)
	})
}

func powmod(b, e int64) int64 {
	res := int64(1)
	b %= q
	for ; e > 0; e >>= 1 {
		if e&1 == 1 {
			res = res * b % q
		}
		b = b * b % q
	}
	return res
}

func brv8(x int) int {
	o := 0
	for i := 0; i < 8; i++ {
		o = o<<1 | (x>>uint(i))&1
	}
	return o
}

func TestChkNorm(t *testing.T) {
	r := ev.New(t, prop, "TestChkNorm")
	r.Rule("polyChkNorm(a,B): coefficients in the reduce32 output range drawn around +-B, +-(B-1), 0, +-(q-1)/2 and the range ends, B in {gamma1-beta, gamma2-beta, gamma2, (q-1)/8, (q-1)/8+1, small}; equals [max |centred coefficient| >= B] and 1 whenever B > (q-1)/8; non-trivial = some coefficient within 1 of +-B, distinct by content")
	bounds := []int32{dilref.Gamma1 - dilref.Beta, gamma2 - dilref.Beta, gamma2, (q - 1) / 8, (q-1)/8 + 1, 1, 2, 120}
	checks := r.PerShard(r.Pick(60000, 2000000))
	r.Rapid(t, "chk", checks, func(rt *rapid.T) {
		B := rapid.SampledFrom(bounds).Draw(rt, "B")
		c := &polyCase{Kind: "chknorm", Bnd: B, A: make([]int32, 256)}
		base := rapid.SampledFrom([]string{"zero", "small", "below"}).Draw(rt, "base")
		x := rapid.Uint64().Draw(rt, "seed") | 1
		next := func(n int64) int64 { x ^= x << 13; x ^= x >> 7; x ^= x << 17; return int64(x>>1) % n }
		for i := range c.A {
			switch base {
			case "small":
				c.A[i] = int32(next(5) - 2)
			case "below":
				if B > 1 {
					c.A[i] = int32(next(2*int64(B)-1) - int64(B) + 1)
				}
			}
		}
		// plant up to 3 special coefficients
		near := false
		for k := rapid.IntRange(0, 3).Draw(rt, "plants"); k > 0; k-- {
			v := rapid.SampledFrom([]int64{int64(B), -int64(B), int64(B) - 1, -(int64(B) - 1), int64(B) + 1, -(int64(B) + 1), (q - 1) / 2, -(q - 1) / 2, (q-1)/2 + 1, 6283007, -6283009, q - 1, -(q - 1)}).Draw(rt, "v")
			if v > 6283007 || v < -6283009 {
				v = v % 6283007
			}
			if abs64(abs64(v)-int64(B)) <= 1 {
				near = true
			}
			c.A[rapid.IntRange(0, 255).Draw(rt, "pos")] = int32(v)
		}
		key, msg := checkPoly(c)
		r.Eval(1)
		if near {
			r.NonTrivial("chk", B, fmt.Sprint(c.A))
		}
		r.Sample(map[string]any{"B": B, "base": base})
		r.Check(rt, key == "", key, c, "%s", msg)
	})
}

// TestColdStart: every shard is a fresh process whose FIRST arithmetic call is a different function (the shard
// number selects it): a table or constant that is initialised lazily by some OTHER function shows up here and
// nowhere else. The first call's result is compared with the definition like any other.
func TestColdStart(t *testing.T) {
	r := ev.New(t, prop, "TestColdStart")
	r.Rule("one fresh process per arithmetic function: the very first call of the process is invNTTToMont / ntt / pointwise product / montgomeryReduce / reduce32 / decompose+useHint / power2Round / polyChkNorm (by shard), compared with its definition; then the other functions; non-trivial = the first call of each process, distinct by function")
	firsts := []string{"invntt", "ntt", "pointwise", "montgomery", "reduce32", "decompose", "power2round", "chknorm"}
	first := firsts[r.Shard()%len(firsts)]
	order := append([]string{first}, firsts...)
	a := drawFixedPoly(r.Seed()*31 + uint64(r.Shard()))
	b := drawFixedPoly(r.Seed()*37 + uint64(r.Shard()) + 5)
	for n, f := range order {
		var key, msg string
		switch f {
		case "invntt":
			x := a
			dilithium.VerifPolyReduce(&x)
			ref := toRef(x[:])
			inv := dilref.INTT(&ref)
			dilithium.VerifInvNTTToMont(&x)
			for i := range x {
				if dilref.Mod(int64(x[i])) != dilref.Mod(inv[i]*((1<<32)%q)) {
					key, msg = "coldstart/invntt", fmt.Sprintf("invNTTToMont as call #%d of the process: coefficient %d = %d, interpolation*2^32 gives %d", n, i, x[i], dilref.Mod(inv[i]*((1<<32)%q)))
					break
				}
			}
		case "ntt", "pointwise":
			c := &polyCase{Kind: "product", A: a[:], B: b[:]}
			key, msg = checkPoly(c)
		case "montgomery":
			c := &scalarCase{Func: "montgomeryReduce", A: int64(a[0]) * int64(b[1])}
			key, msg = checkScalar(c)
		case "reduce32":
			c := &scalarCase{Func: "reduce32", A: int64(a[2]) * 200}
			key, msg = checkScalar(c)
		case "decompose":
			for _, fn := range []string{"decompose", "useHint0", "useHint1", "hintLemma"} {
				c := &scalarCase{Func: fn, A: dilref.Mod(int64(a[3])), B: 5}
				if key, msg = checkScalar(c); key != "" {
					break
				}
			}
		case "power2round":
			c := &scalarCase{Func: "power2Round", A: dilref.Mod(int64(a[4]))}
			key, msg = checkScalar(c)
		case "chknorm":
			c := &polyCase{Kind: "chknorm", A: []int32(b[:]), Bnd: dilref.Gamma1 - dilref.Beta}
			for i := range c.A {
				c.A[i] %= 500000
			}
			key, msg = checkPoly(c)
		}
		r.Eval(1)
		if n == 0 {
			r.NonTrivial("first", f)
			r.Sample(map[string]any{"first_call_of_the_process": f})
		}
		r.Check(t, key == "", "coldstart/"+key, map[string]any{"first_call": first, "failing_call": f, "position": n}, "first call of the process was %s; %s", first, msg)
	}
}

func drawFixedPoly(seed uint64) (p [256]int32) {
	x := seed | 1
	for i := range p {
		x ^= x << 13
		x ^= x >> 7
		x ^= x << 17
		p[i] = int32(int64(x>>3)%(2*q-1) - (q - 1))
	}
	return
}

func init() {
	ev.Register("TestColdStart", func(t *testing.T, r *ev.Recorder, raw json.RawMessage) {
		t.Skip("a cold-start case is a property of a fresh process: re-run ./check C12 quick")
	})
	sc := func(t *testing.T, r *ev.Recorder, raw json.RawMessage) {
		var c scalarCase
		if err := json.Unmarshal(raw, &c); err != nil {
			t.Fatalf("HARNESS-HEALTH: %v", err)
		}
		key, msg := checkScalar(&c)
		r.Check(t, key == "", key, &c, "%s", msg)
	}
	pc := func(t *testing.T, r *ev.Recorder, raw json.RawMessage) {
		var c polyCase
		if err := json.Unmarshal(raw, &c); err != nil {
			t.Fatalf("HARNESS-HEALTH: %v", err)
		}
		key, msg := checkPoly(&c)
		r.Check(t, key == "", key, &c, "%s", msg)
	}
	for _, n := range []string{"TestRoundingAllResidues", "TestMakeHintDomain", "TestReduce32AllInt32", "TestMontgomery"} {
		ev.Register(n, sc)
	}
	ev.Register("TestNTTProducts", pc)
	ev.Register("TestChkNorm", pc)
}
