//go:build verif

package c10

import "github.com/theQRL/go-qrllib/misc"

func init() {
	genericEnc = misc.VerifBinToMnemonic
	genericDec = misc.VerifMnemonicToBin
}
