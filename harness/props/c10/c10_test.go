// C10 — Mnemonic encoding is a bijection and decoding is strict.
// Oracles: round trips both ways, reference codec (12-bit groups over the word list), injectivity,
// refusal of every malformed phrase; the word list's finite invariants are checked exhaustively.
package c10

import (
	"bytes"
	"encoding/json"
	"fmt"
	"strings"
	"testing"
	"unicode/utf8"

	"github.com/theQRL/go-qrllib/dilithium"
	"github.com/theQRL/go-qrllib/misc"
	"github.com/theQRL/go-qrllib/qrl"
	"pgregory.net/rapid"
	"verifharness/ev"
	"verifharness/pu"
	"verifharness/ref/codecref"
)

const prop = "C10"

func TestMain(m *testing.M) {
	ev.Main(m, prop, []ev.Job{
		{Test: "TestWordList", Quick: 1, Thorough: 1},
		{Test: "TestPositionSweep", Quick: 16, Thorough: 16},
		{Test: "TestAllBlocks", Quick: 8, Thorough: 8},
		{Test: "TestRandomRoundTrips", Quick: 4, Thorough: 8},
		{Test: "TestMalformed", Quick: 4, Thorough: 8},
		{Test: "TestColdDecode", Quick: 2, Thorough: 2},
	})
}

func TestReplay(t *testing.T)  { ev.StdReplay(t, prop) }
func TestRegress(t *testing.T) { ev.StdRegress(t, prop) }

var words = qrl.WordList[:]

// hooks: the length-generic codec (verif-tagged file)
var genericEnc func([]byte) string
var genericDec func(string) []byte

func TestWordList(t *testing.T) {
	r := ev.New(t, prop, "TestWordList")
	r.Rule("finite and exhaustive: the word list has exactly 4096 entries, all distinct, each matching [a-z]+ (no whitespace, no upper case, not empty); non-trivial = every entry, distinct by enumeration")
	r.Check(t, len(words) == 4096, "wordlist/size", len(words), "word list has %d entries", len(words))
	seen := map[string]int{}
	for i, w := range words {
		ok := len(w) > 0
		for _, ch := range w {
			if ch < 'a' || ch > 'z' {
				ok = false
			}
		}
		r.Check(t, ok, "wordlist/charset", map[string]any{"index": i, "word": w}, "entry %d (%q) is not [a-z]+", i, w)
		if j, dup := seen[w]; dup {
			r.Check(t, false, "wordlist/duplicate", map[string]any{"word": w, "indices": []int{j, i}}, "word %q appears at indices %d and %d: two seeds share a mnemonic", w, j, i)
		}
		seen[w] = i
		r.Eval(1)
	}
	r.NonTrivialEnum(len(words))
	r.Sample(map[string]any{"first": words[0], "last": words[4095], "entries": len(words)})
	r.Exhaustive("all 4096 word-list entries")
}

// ---- fixed-size encoders / decoders through the public API ----

type codecCase struct {
	Size   int    `json:"size"` // 48 or 51 (public API), other multiples of 3 (hooked generic codec)
	Bytes  pu.HB  `json:"bytes,omitempty"`
	Phrase string `json:"phrase,omitempty"`
}

// phrases that are not valid UTF-8 (a letter replaced by a byte >= 0x80) travel as hex in replay files
func (c codecCase) MarshalJSON() ([]byte, error) {
	type plain codecCase
	if utf8.ValidString(c.Phrase) {
		return json.Marshal(plain(c))
	}
	raw := pu.HB(c.Phrase)
	c.Phrase = ""
	return json.Marshal(struct {
		plain
		PhraseHex pu.HB `json:"phrase_hex"`
	}{plain(c), raw})
}

func (c *codecCase) UnmarshalJSON(d []byte) error {
	type plain codecCase
	var v struct {
		plain
		PhraseHex pu.HB `json:"phrase_hex"`
	}
	if err := json.Unmarshal(d, &v); err != nil {
		return err
	}
	*c = codecCase(v.plain)
	if v.PhraseHex != nil {
		c.Phrase = string(v.PhraseHex)
	}
	return nil
}

func enc(size int, b []byte) (s string, o ev.Outcome) {
	o = ev.Try(func() {
		switch size {
		case 48:
			s = misc.SeedBinToMnemonic(pu.Arr48(b))
		case 51:
			var a [51]byte
			copy(a[:], b)
			s = misc.ExtendedSeedBinToMnemonic(a)
		default:
			s = genericEnc(b)
		}
	})
	return
}

func dec(size int, p string) (b []byte, o ev.Outcome) {
	o = ev.Try(func() {
		switch size {
		case 48:
			a := misc.MnemonicToSeedBin(p)
			b = a[:]
		case 51:
			a := misc.MnemonicToExtendedSeedBin(p)
			b = a[:]
		default:
			b = genericDec(p)
		}
	})
	return
}

// checkBytes: enc, compare with the reference, decode, compare.
func checkBytes(c *codecCase) (string, string) {
	p, o := enc(c.Size, c.Bytes)
	if o.Panicked {
		return "encode/panic", fmt.Sprintf("encoding %d bytes: %s", len(c.Bytes), o)
	}
	want, _ := codecref.Encode(c.Bytes, words)
	if p != want {
		return "encode/differs", fmt.Sprintf("encoding of %x differs from the reference codec: %q vs %q", []byte(c.Bytes), firstWordsDiff(p, want), "")
	}
	back, o := dec(c.Size, p)
	if o.Panicked {
		return "decode/refuses-valid", fmt.Sprintf("decoding the library's own encoding: %s", o)
	}
	if !bytes.Equal(back, c.Bytes) {
		return "roundtrip/bytes", fmt.Sprintf("dec(enc(b)) != b: first differing byte %d (b=%x)", firstDiff(back, c.Bytes), []byte(c.Bytes))
	}
	return "", ""
}

func firstWordsDiff(a, b string) string {
	x, y := strings.Split(a, " "), strings.Split(b, " ")
	for i := range x {
		if i >= len(y) || x[i] != y[i] {
			w := "<none>"
			if i < len(y) {
				w = y[i]
			}
			return fmt.Sprintf("word %d is %q, reference %q", i, x[i], w)
		}
	}
	return fmt.Sprintf("word counts %d vs %d", len(x), len(y))
}

func firstDiff(a, b []byte) int {
	for i := 0; i < len(a) && i < len(b); i++ {
		if a[i] != b[i] {
			return i
		}
	}
	return -1
}

func TestPositionSweep(t *testing.T) {
	r := ev.New(t, prop, "TestPositionSweep")
	r.Rule("exhaustive: EVERY 12-bit value at EVERY word position of the 48-byte (32 words) and 51-byte (34 words) encodings, surrounding bytes derived from VERIF_SEED: encoding equals the reference codec, the word at that position is the value's list entry, decoding returns the bytes; non-trivial = odd word positions (the group straddles a byte with its high nibble in the low half) with the high nibble set - the alignment-slip class - counted exactly")
	n, nt := 0, 0
	for _, size := range []int{48, 51} {
		nw := size * 2 / 3
		for pos := 0; pos < nw; pos++ {
			for v := 0; v < 4096; v++ {
				n++
				if !r.Mine(n) {
					continue
				}
				b := pu.DetBytes(r.Seed()*7919+uint64(pos)*4096+uint64(v), size)
				// place v at word position pos
				bit := pos * 12
				if bit%8 == 0 {
					b[bit/8] = byte(v >> 4)
					b[bit/8+1] = b[bit/8+1]&0x0f | byte(v<<4)
				} else {
					b[bit/8] = b[bit/8]&0xf0 | byte(v>>8)
					b[bit/8+1] = byte(v)
				}
				c := &codecCase{Size: size, Bytes: b}
				key, msg := checkBytes(c)
				if key == "" {
					p, _ := enc(size, b)
					if ws := strings.Split(p, " "); len(ws) != nw || ws[pos] != words[v] {
						key, msg = "encode/position", fmt.Sprintf("size %d: value %d at word position %d is encoded as %q, list entry is %q", size, v, pos, ws[pos], words[v])
					}
				}
				r.Check(t, key == "", key, c, "%s", msg)
				if pos%2 == 1 && v>>8 != 0 {
					nt++
				}
			}
		}
	}
	r.Eval(n / r.NShards())
	r.NonTrivialEnum(nt)
	r.Sample(map[string]any{"size": 51, "position": 33, "value": 4095, "word": words[4095]})
	r.Exhaustive("every 12-bit value at every word position of both public encodings (4096 x 66 cases)")
}

func TestRandomRoundTrips(t *testing.T) {
	r := ev.New(t, prop, "TestRandomRoundTrips")
	r.Rule("rapid: 48- and 51-byte arrays (uniform and degenerate) encoded, compared with the reference codec, decoded; rapid sequences of 32 / 34 list words decoded then re-encoded (enc(dec(p)) == p, and dec(p) equals the reference decoder); all encodings seen in the run are checked pairwise-distinct for distinct inputs; non-trivial = every case, distinct by content")
	seen := map[string]string{}
	checks := r.PerShard(r.Pick(24000, 600000))
	r.Rapid(t, "rt", checks, func(rt *rapid.T) {
		size := rapid.SampledFrom([]int{48, 51}).Draw(rt, "size")
		c := &codecCase{Size: size}
		if rapid.Bool().Draw(rt, "fromBytes") {
			c.Bytes = pu.Seed48().Draw(rt, "bytes")
			if size == 51 {
				c.Bytes = append([]byte{rapid.Byte().Draw(rt, "d0"), rapid.Byte().Draw(rt, "d1"), rapid.Byte().Draw(rt, "d2")}, c.Bytes...)
			}
			key, msg := checkBytes(c)
			r.Check(rt, key == "", key, c, "%s", msg)
			p, _ := enc(size, c.Bytes)
			if prev, ok := seen[p]; ok && prev != string(c.Bytes) {
				r.Check(rt, false, "injectivity", c, "two different byte strings share the mnemonic %q", p)
			}
			if len(seen) < 200000 {
				seen[p] = string(c.Bytes)
			}
			r.Count("direction_bytes_first", 1)
		} else {
			nw := size * 2 / 3
			ws := make([]string, nw)
			// word-length class: the shortest and the longest phrases a seed can have are far from what random bytes give
			wantLen := rapid.SampledFrom([]int{0, 0, 3, 6, 4}).Draw(rt, "wordLen")
			for i := range ws {
				ws[i] = words[rapid.IntRange(0, 4095).Draw(rt, "w")]
				for tries := 0; wantLen != 0 && len(ws[i]) != wantLen && tries < 400; tries++ {
					ws[i] = words[rapid.IntRange(0, 4095).Draw(rt, "w2")]
				}
			}
			c.Phrase = strings.Join(ws, " ")
			r.Count(fmt.Sprintf("phrase_word_length_class_%d", wantLen), 1)
			key, msg := checkPhrase(c)
			r.Check(rt, key == "", key, c, "%s", msg)
			r.Count("direction_phrase_first", 1)
		}
		r.Eval(1)
		r.NonTrivial(size, []byte(c.Bytes), c.Phrase)
		r.Sample(map[string]any{"size": size, "bytes": pu.Short(c.Bytes), "phrase": short(c.Phrase)})
	})
}

func short(s string) string {
	if len(s) > 60 {
		return s[:60] + "…"
	}
	return s
}

func checkPhrase(c *codecCase) (string, string) {
	b, o := dec(c.Size, c.Phrase)
	if o.Panicked {
		return "decode/refuses-valid", fmt.Sprintf("decoding a well-formed %d-word phrase: %s", len(strings.Split(c.Phrase, " ")), o)
	}
	want, err := codecref.Decode(c.Phrase, words)
	if err != nil || !bytes.Equal(b, want) {
		return "decode/differs", fmt.Sprintf("decoded bytes differ from the reference decoder at byte %d", firstDiff(b, want))
	}
	p, o := enc(c.Size, b)
	if o.Panicked || p != c.Phrase {
		return "roundtrip/phrase", fmt.Sprintf("enc(dec(p)) != p: %s %s", firstWordsDiff(p, c.Phrase), o)
	}
	return "", ""
}

// ---- malformed phrases must be refused ----

var malKinds = []string{"unknown-typo", "unknown-prefix", "unknown-suffix", "upper-case", "mixed-case", "double-space", "leading-space", "trailing-space",
	"tab-separator", "newline-separator", "nbsp-separator", "word-removed", "word-added", "30-words", "36-words", "wrong-decoder", "empty", "only-spaces", "comma-separated", "unicode-lookalike", "trailing-newline",
	"word-removed+trailing-space", "word-removed+leading-space", "word-removed+double-space", "two-words-removed+two-spaces", "word-added+trailing-space", "suffix-on-six-letter-word", "word+NUL", "count-same-size-mod-256", "two-tabs", "two-newlines", "tab-and-newline-wrapped",
	"one-letter-upper-inside", "one-letter-other-byte", "token-outside-list-order", "rune-low-byte-is-the-letter", "complete-phrase+junk-tail", "complete-phrase+two-trailing-blanks"}

// bytes that sit next to, or alias onto, the lower-case letters under arithmetic a decoder might do on them
var nearLetterBytes = []byte{'`', '{', '@', '[', '|', '}', '~', '0', '9', '-', '\'', '_', '.', 0x7f, 0x80, 0x81, 0xe1, 0xfa, 0x01, 0x1f}

// tokens that are not list words and fall before the first entry, after the last one, or are otherwise extreme in
// any ordering of the list
var outsideTokens = []string{"a", "aa", "aaa", "aaaaaa", "ab", "abacu", "zz", "zzz", "zzzzzz", "zv", "zuric", "zurica", "zuricz", "zuricha", "zurichz", "zygote", "zwei", "{", "~", "~~~~~~", "é", "0", "00", "-", "_"}

func inList(w string) bool {
	for _, x := range words {
		if x == w {
			return true
		}
	}
	return false
}

func checkMalformed(c *codecCase) (string, string) {
	b, o := dec(c.Size, c.Phrase)
	if !o.Panicked {
		return "malformed/accepted", fmt.Sprintf("a malformed phrase was decoded to %x instead of being refused", b)
	}
	if !o.IsString {
		return "malformed/runtime-fault", fmt.Sprintf("refusal is not one of the library's explicit messages: %s", o)
	}
	if c.Size == 48 {
		// the other exported entry that decodes a 32-word phrase: the Dilithium wallet constructor must refuse it too
		// (an error or one of the explicit messages), never build a key from it
		var d *dilithium.Dilithium
		var err error
		oc := ev.Try(func() { d, err = dilithium.NewDilithiumFromMnemonic(c.Phrase) })
		if !oc.Panicked && err == nil && d != nil {
			return "malformed/accepted-by-constructor", fmt.Sprintf("dilithium.NewDilithiumFromMnemonic built a key (seed %x) from a phrase the codec refuses", d.GetSeed())
		}
		if oc.Panicked && !oc.IsString {
			return "malformed/runtime-fault", fmt.Sprintf("NewDilithiumFromMnemonic: refusal is not one of the library's explicit messages: %s", oc)
		}
	}
	return "", ""
}

func TestMalformed(t *testing.T) {
	r := ev.New(t, prop, "TestMalformed")
	r.Rule("rapid: a valid 32- or 34-word phrase damaged by ONE named edit (unknown word by typo/prefix/suffix - re-drawn until it is not a list word -, upper/mixed case, ONE letter upper-cased or replaced by a byte next to the letter range, a token outside the list's alphabetical range, a code point whose low byte is the original letter, a complete phrase followed by an even number of junk tokens, double/leading/trailing space, tab/newline/NBSP/comma separators, word removed/added, 30/36 words, phrase given to the other size's decoder, empty, only spaces, look-alike letter) must be refused with an explicit message and never decoded (32-word phrases also by dilithium.NewDilithiumFromMnemonic, which must not build a key); non-trivial = every case, distinct by (edit, phrase)")
	checks := r.PerShard(r.Pick(12000, 300000))
	r.Rapid(t, "mal", checks, func(rt *rapid.T) {
		size := rapid.SampledFrom([]int{48, 51}).Draw(rt, "size")
		nw := size * 2 / 3
		ws := make([]string, nw)
		for i := range ws {
			ws[i] = words[rapid.IntRange(0, 4095).Draw(rt, "w")]
		}
		kind := rapid.SampledFrom(malKinds).Draw(rt, "edit")
		pos := rapid.IntRange(0, nw-1).Draw(rt, "pos")
		c := &codecCase{Size: size}
		join := func() string { return strings.Join(ws, " ") }
		switch kind {
		case "unknown-typo", "unknown-prefix", "unknown-suffix":
			for tries := 0; ; tries++ {
				w := ws[pos]
				switch kind {
				case "unknown-typo":
					i := rapid.IntRange(0, len(w)-1).Draw(rt, "i")
					w = w[:i] + string(rune('a'+rapid.IntRange(0, 25).Draw(rt, "ch"))) + w[i+1:]
				case "unknown-prefix":
					w = w[:rapid.IntRange(1, len(w)-1).Draw(rt, "cut")]
				default:
					w = w + string(rune('a'+rapid.IntRange(0, 25).Draw(rt, "ch")))
				}
				if !inList(w) {
					ws[pos] = w
					break
				}
				if tries > 50 {
					ws[pos] = "zzzzzzz"
					break
				}
			}
			c.Phrase = join()
		case "one-letter-upper-inside":
			w := []byte(ws[pos])
			i := rapid.IntRange(0, len(w)-1).Draw(rt, "i")
			w[i] -= 32
			ws[pos] = string(w)
			c.Phrase = join()
		case "one-letter-other-byte":
			w := []byte(ws[pos])
			i := rapid.IntRange(0, len(w)-1).Draw(rt, "i")
			w[i] = rapid.SampledFrom(nearLetterBytes).Draw(rt, "byte")
			ws[pos] = string(w)
			c.Phrase = join()
		case "rune-low-byte-is-the-letter":
			// a letter replaced by the code point U+0100..U+FF00 + letter (Latin Extended-A "s with caron" U+0161 ends
			// in 0x61 = 'a'): a decoder that narrows runes to bytes reads the original letter
			w := ws[pos]
			i := rapid.IntRange(0, len(w)-1).Draw(rt, "i")
			hi := rapid.SampledFrom([]int{0x100, 0x200, 0x400, 0x1e00, 0x2100, 0x4e00, 0xff00, 0x10000, 0x1f600}).Draw(rt, "plane")
			ws[pos] = w[:i] + string(rune(hi+int(w[i]))) + w[i+1:]
			c.Phrase = join()
		case "complete-phrase+junk-tail":
			// every word of the phrase is fine and the count is right; an EVEN number of further tokens follows, the first
			// of them not a list word (a note, a label, the same word capitalised): a decoder that stops at the first
			// unknown word has already filled its 48 / 51 bytes
			tails := [][]string{{"(dilithium", "backup)"}, {"Splash", "splash"}, {"-", "-"}, {"#1", "of", "2", "copies"}, {"xx", words[rapid.IntRange(0, 4095).Draw(rt, "tw")]}, {"", "x"}}
			c.Phrase = join() + " " + strings.Join(tails[rapid.IntRange(0, len(tails)-1).Draw(rt, "tail")], " ")
		case "complete-phrase+two-trailing-blanks":
			c.Phrase = join() + "  "
		case "token-outside-list-order":
			tok := rapid.SampledFrom(outsideTokens).Draw(rt, "tok")
			if inList(tok) {
				tok += "{"
			}
			ws[pos] = tok
			c.Phrase = join()
		case "upper-case":
			ws[pos] = strings.ToUpper(ws[pos])
			c.Phrase = join()
		case "mixed-case":
			ws[pos] = strings.ToUpper(ws[pos][:1]) + ws[pos][1:]
			c.Phrase = join()
		case "double-space":
			p := join()
			k := rapid.IntRange(1, nw-1).Draw(rt, "gap")
			idx := 0
			for i := 0; i < k; i++ {
				idx += strings.Index(p[idx:], " ") + 1
			}
			c.Phrase = p[:idx] + " " + p[idx:]
		case "leading-space":
			c.Phrase = " " + join()
		case "trailing-space":
			c.Phrase = join() + " "
		case "trailing-newline":
			c.Phrase = join() + "\n"
		case "tab-separator":
			c.Phrase = strings.Replace(join(), " ", "\t", rapid.SampledFrom([]int{1, -1}).Draw(rt, "n"))
		case "newline-separator":
			c.Phrase = strings.Replace(join(), " ", "\n", rapid.SampledFrom([]int{1, -1}).Draw(rt, "n"))
		case "nbsp-separator":
			c.Phrase = strings.Replace(join(), " ", " ", rapid.SampledFrom([]int{1, -1}).Draw(rt, "n"))
		case "comma-separated":
			c.Phrase = strings.ReplaceAll(join(), " ", ",")
		case "word-removed":
			ws = append(ws[:pos], ws[pos+1:]...)
			c.Phrase = join()
		case "word-removed+trailing-space":
			ws = append(ws[:pos], ws[pos+1:]...)
			c.Phrase = join() + " "
		case "word-removed+leading-space":
			ws = append(ws[:pos], ws[pos+1:]...)
			c.Phrase = " " + join()
		case "word-removed+double-space":
			ws = append(ws[:pos], ws[pos+1:]...)
			c.Phrase = strings.Replace(join(), " ", "  ", 1)
		case "two-words-removed+two-spaces":
			ws = ws[:len(ws)-2]
			c.Phrase = join() + "  "
		case "word-added+trailing-space":
			ws = append(ws, words[rapid.IntRange(0, 4095).Draw(rt, "extra")])
			c.Phrase = join() + " "
		case "count-same-size-mod-256":
			// 544 / 546 words decode to 816 / 819 bytes = 48 / 51 modulo 256 (1056 / 1058: modulo 512)
			want := map[int][]int{48: {544, 1056}, 51: {546, 1058}}[size][rapid.IntRange(0, 1).Draw(rt, "which")]
			for len(ws) < want {
				ws = append(ws, words[rapid.IntRange(0, 4095).Draw(rt, "extra")])
			}
			c.Phrase = join()
		case "two-tabs", "two-newlines", "tab-and-newline-wrapped":
			// TWO separators are not blanks (the number of blank-separated tokens stays even)
			seps := map[string][2]string{"two-tabs": {"\t", "\t"}, "two-newlines": {"\n", "\n"}, "tab-and-newline-wrapped": {"\t", "\r\n"}}[kind]
			a := rapid.IntRange(1, nw-2).Draw(rt, "gapA")
			b := rapid.IntRange(a+1, nw-1).Draw(rt, "gapB")
			out := ws[0]
			for i := 1; i < nw; i++ {
				sep := " "
				if i == a {
					sep = seps[0]
				} else if i == b {
					sep = seps[1]
				}
				out += sep + ws[i]
			}
			c.Phrase = out
		case "suffix-on-six-letter-word":
			for tries := 0; len(ws[pos]) != 6 && tries < 200; tries++ {
				ws[pos] = words[rapid.IntRange(0, 4095).Draw(rt, "six")]
			}
			ws[pos] += rapid.SampledFrom([]string{"z", "s", "ed", "x1"}).Draw(rt, "sfx")
			if inList(ws[pos]) {
				ws[pos] += "q"
			}
			c.Phrase = join()
		case "word+NUL":
			ws[pos] += "\x00"
			c.Phrase = join()
		case "word-added":
			ws = append(ws[:pos], append([]string{words[rapid.IntRange(0, 4095).Draw(rt, "extra")]}, ws[pos:]...)...)
			c.Phrase = join()
		case "30-words":
			ws = ws[:30]
			c.Phrase = join()
		case "36-words":
			for len(ws) < 36 {
				ws = append(ws, words[rapid.IntRange(0, 4095).Draw(rt, "extra")])
			}
			c.Phrase = join()
		case "wrong-decoder":
			c.Phrase = join()
			c.Size = 99 - size // 48 <-> 51
		case "empty":
			c.Phrase = ""
		case "only-spaces":
			c.Phrase = strings.Repeat(" ", rapid.IntRange(1, 40).Draw(rt, "n"))
		case "unicode-lookalike":
			// Cyrillic small a / e / o in place of the Latin letter
			w := ws[pos]
			rep := strings.NewReplacer("a", "а", "e", "е", "o", "о").Replace(w)
			if rep == w {
				rep = w + "а"
			}
			ws[pos] = rep
			c.Phrase = join()
		}
		r.Pending(c) // a decoder that never returns is reported after the driver has re-run the phrase alone
		key, msg := checkMalformed(c)
		r.Done()
		r.Eval(1)
		r.Count("edit_"+kind, 1)
		r.NonTrivial(kind, c.Size, c.Phrase)
		r.Sample(map[string]any{"edit": kind, "decoder_size": c.Size, "phrase": short(c.Phrase)})
		r.Check(rt, key == "", key+"/"+kind, c, "%s: %s", kind, msg)
	})
}

// TestColdDecode: a fresh process whose FIRST mnemonic operation is a decode (restoring a wallet from a written-down
// phrase); the phrase comes from the reference codec, the library has not encoded anything yet.
func TestColdDecode(t *testing.T) {
	r := ev.New(t, prop, "TestColdDecode")
	r.Rule("fresh process: the first mnemonic operation is a DECODE of a phrase produced by the reference codec (48- or 51-byte form by shard), compared with the bytes; then an encode; non-trivial = the first decode of the process, distinct by form")
	size := []int{48, 51}[r.Shard()%2]
	b := pu.DetBytes(r.Seed()*77+uint64(size), size)
	phrase, _ := codecref.Encode(b, words)
	c := &codecCase{Size: size, Phrase: phrase}
	got, o := dec(size, phrase)
	r.Eval(1)
	r.NonTrivial("cold", size)
	r.Sample(map[string]any{"first_operation": "decode", "size": size})
	r.Check(t, !o.Panicked && bytes.Equal(got, b), "cold/decode-first", c, "decoding as the first mnemonic operation of the process: %s, bytes equal: %v", o, bytes.Equal(got, b))
	key, msg := checkPhrase(c)
	r.Check(t, key == "", key, c, "%s", msg)
}

func TestAllBlocks(t *testing.T) {
	r := ev.New(t, prop, "TestAllBlocks")
	if genericEnc == nil {
		t.Skip("needs the verif hooks")
	}
	r.Rule("hooked, exhaustive: ALL 2^24 three-byte blocks through the length-generic codec, 1024 blocks per call: encoding equals the reference codec (hence distinct blocks get distinct word pairs, the list being duplicate-free) and decoding returns the bytes; non-trivial = blocks whose second 12-bit group has its high nibble set, counted exactly")
	const per = 1024
	nt := 0
	calls := 0
	for batch := 0; batch < (1<<24)/per; batch++ {
		if !r.Mine(batch) {
			continue
		}
		b := make([]byte, 3*per)
		for i := 0; i < per; i++ {
			v := batch*per + i
			b[3*i], b[3*i+1], b[3*i+2] = byte(v>>16), byte(v>>8), byte(v)
			if v&0xf00 != 0 {
				nt++
			}
		}
		c := &codecCase{Size: 3 * per, Bytes: b}
		key, msg := checkBytes(c)
		if key != "" {
			// narrow the replay to the first failing block
			for i := 0; i < per; i++ {
				cc := &codecCase{Size: 3, Bytes: b[3*i : 3*i+3]}
				if k2, m2 := checkBytes(cc); k2 != "" {
					c, key, msg = cc, k2, m2
					break
				}
			}
		}
		r.Check(t, key == "", key, c, "%s", msg)
		calls++
	}
	r.Eval(calls * per)
	r.NonTrivialEnum(nt)
	r.Sample(map[string]any{"block": "ffffff", "words": words[4095] + " " + words[4095]})
	r.Exhaustive("all 2^24 three-byte blocks through the generic codec")
}

func init() {
	reg := func(name string, f func(c *codecCase) (string, string)) {
		ev.Register(name, func(t *testing.T, r *ev.Recorder, raw json.RawMessage) {
			var c codecCase
			if err := json.Unmarshal(raw, &c); err != nil {
				t.Fatalf("HARNESS-HEALTH: %v", err)
			}
			if c.Size != 48 && c.Size != 51 && genericEnc == nil {
				t.Skip("needs hooks")
			}
			key, msg := f(&c)
			r.Check(t, key == "", key, &c, "%s", msg)
		})
	}
	reg("TestColdDecode", checkPhrase)
	reg("TestPositionSweep", checkBytes)
	reg("TestAllBlocks", checkBytes)
	reg("TestMalformed", checkMalformed)
	reg("TestRandomRoundTrips", func(c *codecCase) (string, string) {
		if c.Phrase != "" {
			return checkPhrase(c)
		}
		return checkBytes(c)
	})
}
