module verifharness

go 1.23

toolchain go1.23.5

require (
	github.com/theQRL/go-qrllib v0.0.0
	golang.org/x/crypto v0.17.0
	pgregory.net/rapid v1.3.0
)

require (
	github.com/gopherjs/gopherjs v1.18.0-beta1.0.20220817214357-b972ef3adc13 // indirect
	golang.org/x/sys v0.15.0 // indirect
)

replace github.com/theQRL/go-qrllib => /repo
