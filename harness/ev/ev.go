// Package ev is the plumbing shared by all property packages: shard/seed/tier
// handling, evidence fragments, replay files, known-findings lookup and a panic
// classifier. It contains no property logic.
package ev

import (
	"bufio"
	"encoding/binary"
	"encoding/json"
	"flag"
	"fmt"
	"hash/fnv"
	"os"
	"path/filepath"
	"runtime"
	"sort"
	"strconv"
	"strings"
	"sync"
	"sync/atomic"
	"testing"
	"time"

	"pgregory.net/rapid"
)

// TB is what both *testing.T and *rapid.T offer.
type TB interface {
	Fatalf(format string, args ...any)
	Logf(format string, args ...any)
}

const hashCap = 150000 // per shard; beyond it distinct counting stops (conservative)

type Recorder struct {
	mu       sync.Mutex
	t        testing.TB
	Prop     string
	Test     string
	tier     string
	seed     uint64
	shard    int
	nshards  int
	out      string
	start    time.Time
	evals    int64
	ntEnum   int64
	hashes   map[uint64]struct{}
	capHit   bool
	counters map[string]int64
	samples  []any
	exh      []string
	assume   []string
	notes    map[string]any
	known    map[string]string // key -> description (from KNOWN_FINDINGS.txt)
	knownHit map[string]int64
	failed   bool
}

func envInt(name string, def int) int {
	if v := os.Getenv(name); v != "" {
		if n, err := strconv.Atoi(v); err == nil {
			return n
		}
	}
	return def
}

// New creates the recorder for one test function of one property. The fragment is
// written when the test ends (t.Cleanup), including on failure.
func New(t testing.TB, prop, test string) *Recorder {
	r := &Recorder{t: t, Prop: prop, Test: test, start: time.Now(),
		hashes: map[uint64]struct{}{}, counters: map[string]int64{}, notes: map[string]any{},
		known: map[string]string{}, knownHit: map[string]int64{}}
	r.tier = os.Getenv("VERIF_TIER")
	if r.tier != "thorough" {
		r.tier = "quick"
	}
	if v := os.Getenv("VERIF_SEED"); v != "" {
		if n, err := strconv.ParseInt(v, 10, 64); err == nil {
			r.seed = uint64(n)
		}
	}
	r.shard = envInt("VERIF_SHARD", 0)
	r.nshards = envInt("VERIF_NSHARDS", 1)
	if r.nshards < 1 {
		r.nshards = 1
	}
	r.out = os.Getenv("VERIF_OUT")
	r.loadKnown(os.Getenv("VERIF_KNOWN"))
	t.Cleanup(r.flush)
	return r
}

func (r *Recorder) loadKnown(path string) {
	if path == "" {
		return
	}
	f, err := os.Open(path)
	if err != nil {
		return
	}
	defer f.Close()
	sc := bufio.NewScanner(f)
	for sc.Scan() {
		line := strings.TrimSpace(sc.Text())
		// format: known: property=C04 key=<stable-key> <free text>
		if !strings.HasPrefix(line, "known:") {
			continue
		}
		fields := strings.Fields(line[len("known:"):])
		var prop, key string
		var rest []string
		for _, f := range fields {
			switch {
			case strings.HasPrefix(f, "property="):
				prop = f[len("property="):]
			case strings.HasPrefix(f, "key="):
				key = f[len("key="):]
			default:
				rest = append(rest, f)
			}
		}
		if prop == r.Prop && key != "" {
			r.known[key] = strings.Join(rest, " ")
		}
	}
}

func (r *Recorder) Tier() string    { return r.tier }
func (r *Recorder) Thorough() bool  { return r.tier == "thorough" }
func (r *Recorder) Seed() uint64    { return r.seed }
func (r *Recorder) Shard() int      { return r.shard }
func (r *Recorder) NShards() int    { return r.nshards }
func (r *Recorder) Mine(i int) bool { return i%r.nshards == r.shard }
func (r *Recorder) Pick(q, th int) int {
	if r.Thorough() {
		return th
	}
	return q
}

// PerShard divides a total budget over the shards (at least 1).
func (r *Recorder) PerShard(total int) int {
	n := (total + r.nshards - 1) / r.nshards
	if n < 1 {
		n = 1
	}
	return n
}

func mix(x uint64) uint64 {
	x += 0x9e3779b97f4a7c15
	x = (x ^ (x >> 30)) * 0xbf58476d1ce4e5b9
	x = (x ^ (x >> 27)) * 0x94d049bb133111eb
	return x ^ (x >> 31)
}

// SubSeed derives a non-zero seed from VERIF_SEED, the test name, the shard and a label.
func (r *Recorder) SubSeed(label string) uint64 {
	h := fnv.New64a()
	h.Write([]byte(r.Prop + "/" + r.Test + "/" + label))
	s := mix(r.seed ^ mix(h.Sum64()) ^ mix(uint64(r.shard)+1))
	if s == 0 {
		s = 1
	}
	return s
}

// Rapid runs prop under rapid with a count and a seed that are functions of
// (VERIF_SEED, test, shard, label); fail files are disabled.
func (r *Recorder) Rapid(t *testing.T, label string, checks int, prop func(*rapid.T)) {
	flag.Set("rapid.checks", strconv.Itoa(checks))
	flag.Set("rapid.seed", strconv.FormatUint(r.SubSeed(label), 10))
	flag.Set("rapid.nofailfile", "true")
	if os.Getenv("VERIF_SHRINKTIME") != "" {
		flag.Set("rapid.shrinktime", os.Getenv("VERIF_SHRINKTIME"))
	}
	rapid.Check(t, prop)
}

func (r *Recorder) Eval(n int) {
	r.mu.Lock()
	r.evals += int64(n)
	r.mu.Unlock()
}

// NonTrivial records one non-trivial case identified by key (distinctness by hash).
func (r *Recorder) NonTrivial(key ...any) {
	h := fnv.New64a()
	fmt.Fprint(h, r.Test, "|")
	for _, k := range key {
		switch v := k.(type) {
		case []byte:
			h.Write(v)
			h.Write([]byte{0xff})
		default:
			fmt.Fprint(h, v, "|")
		}
	}
	r.mu.Lock()
	if len(r.hashes) < hashCap {
		r.hashes[h.Sum64()] = struct{}{}
	} else {
		r.capHit = true
	}
	r.mu.Unlock()
}

// NonTrivialEnum adds n cases that are distinct by construction (an enumerator
// visits each element once) and non-trivial by the test's rule.
func (r *Recorder) NonTrivialEnum(n int) {
	r.mu.Lock()
	r.ntEnum += int64(n)
	r.mu.Unlock()
}

func (r *Recorder) Count(class string, n int) {
	r.mu.Lock()
	r.counters[class] += int64(n)
	r.mu.Unlock()
}

func (r *Recorder) Counter(class string) int64 {
	r.mu.Lock()
	defer r.mu.Unlock()
	return r.counters[class]
}

// Sample keeps the first few samples offered.
func (r *Recorder) Sample(v any) {
	r.mu.Lock()
	if len(r.samples) < 3 {
		r.samples = append(r.samples, v)
	}
	r.mu.Unlock()
}

func (r *Recorder) Exhaustive(name string) {
	r.mu.Lock()
	r.exh = append(r.exh, name)
	r.mu.Unlock()
}

func (r *Recorder) Assume(s string) {
	r.mu.Lock()
	for _, a := range r.assume {
		if a == s {
			r.mu.Unlock()
			return
		}
	}
	r.assume = append(r.assume, s)
	r.mu.Unlock()
}

func (r *Recorder) Note(k string, v any) {
	r.mu.Lock()
	r.notes[k] = v
	r.mu.Unlock()
}

type Replay struct {
	Property string          `json:"property"`
	Test     string          `json:"test"`
	Key      string          `json:"key"`
	Message  string          `json:"message"`
	Tier     string          `json:"tier,omitempty"`
	Seed     uint64          `json:"seed,omitempty"`
	Case     json.RawMessage `json:"case"`
}

// Violation records a failed case. If its stable key is listed as a known finding it
// is counted and false is returned (the caller carries on); otherwise the replay file
// is (over)written and true is returned: the caller must then fail its TB.
func (r *Recorder) Violation(key, msg string, c any) bool {
	r.mu.Lock()
	defer r.mu.Unlock()
	if _, ok := r.known[key]; ok {
		r.knownHit[key]++
		return false
	}
	r.failed = true
	raw, err := json.Marshal(c)
	if err != nil {
		raw, _ = json.Marshal(fmt.Sprintf("unserialisable case: %v", err))
	}
	rep := Replay{Property: r.Prop, Test: r.Test, Key: key, Message: msg, Tier: r.tier, Seed: r.seed, Case: raw}
	if r.out != "" && os.Getenv("VERIF_REPLAY") == "" && os.Getenv("VERIF_REGRESS_RUN") == "" {
		b, _ := json.MarshalIndent(rep, "", " ")
		os.WriteFile(filepath.Join(r.out, fmt.Sprintf("replay-%s-%d.json", r.Test, r.shard)), b, 0o644)
	}
	return true
}

// Check is the usual way to report: fail tb when ok is false and the case is not a known finding.
func (r *Recorder) Check(tb TB, ok bool, key string, c any, format string, args ...any) {
	if ok {
		return
	}
	msg := fmt.Sprintf(format, args...)
	if r.Violation(key, msg, c) {
		tb.Fatalf("VIOLATION-CANDIDATE key=%s: %s", key, msg)
	}
}

// Pending records the case about to be executed; if the process never comes back from the call (the
// driver's job timeout fires) the driver re-runs this case alone and reports a hang only if it times
// out again. Cleared by Done.
func (r *Recorder) Pending(c any) {
	dir := os.Getenv("VERIF_OUT")
	if dir == "" {
		return
	}
	pendingSince.Store(time.Now().UnixNano())
	watchdogOnce.Do(startWatchdog)
	if os.Getenv("VERIF_REPLAY") != "" {
		return // the driver is re-running one saved case alone: the watchdog is all that is needed
	}
	raw, err := json.Marshal(c)
	if err != nil {
		return
	}
	rep := Replay{Property: r.Prop, Test: r.Test, Key: "hang", Message: "the call did not return within the job's time limit", Tier: r.tier, Seed: r.seed, Case: raw}
	b, _ := json.Marshal(rep)
	os.WriteFile(r.pendingPath(dir), b, 0o644)
}

// the pending file is named after the JOB the driver started (a saved input replayed by TestRegress belongs to
// another test than the job), its content names the test whose replay function understands the case
func (r *Recorder) pendingPath(dir string) string {
	job := os.Getenv("VERIF_JOB")
	if job == "" {
		job = r.Test
	}
	return filepath.Join(dir, fmt.Sprintf("pending-%s-%d.json", job, r.shard))
}

func (r *Recorder) Done() {
	pendingSince.Store(0)
	if dir := os.Getenv("VERIF_OUT"); dir != "" && os.Getenv("VERIF_REPLAY") == "" {
		os.Remove(r.pendingPath(dir))
	}
}

// The in-process watchdog: a case announced with Pending that has not reached Done within VERIF_CASE_LIMIT seconds
// (default 120) ends the process with exit code 97, leaving the pending file; the driver then re-runs that one case
// alone under its own limit and only a second failure to return is reported as a hang.
var (
	pendingSince atomic.Int64
	watchdogOnce sync.Once
)

func startWatchdog() {
	limit := 120
	if v, err := strconv.Atoi(os.Getenv("VERIF_CASE_LIMIT")); err == nil && v > 0 {
		limit = v
	}
	go func() {
		for {
			time.Sleep(2 * time.Second)
			if s := pendingSince.Load(); s != 0 && time.Since(time.Unix(0, s)) > time.Duration(limit)*time.Second {
				fmt.Fprintf(os.Stderr, "HANG-SUSPECT: a case has been running for more than %d s\n", limit)
				os.Exit(97)
			}
		}
	}()
}

// Health fails the run as a generator/harness problem (exit 2 in the driver), never as a violation.
func (r *Recorder) Health(ok bool, format string, args ...any) {
	if ok {
		return
	}
	r.mu.Lock()
	r.notes["health_failure"] = fmt.Sprintf(format, args...)
	r.mu.Unlock()
	r.t.Fatalf("HARNESS-HEALTH: "+format, args...)
}

type fragment struct {
	Property   string            `json:"property"`
	Test       string            `json:"test"`
	Shard      int               `json:"shard"`
	NShards    int               `json:"nshards"`
	Tier       string            `json:"tier"`
	Seed       uint64            `json:"seed"`
	Evals      int64             `json:"evaluations"`
	NTEnum     int64             `json:"nontrivial_enum"`
	NTHashed   int               `json:"nontrivial_hashed"`
	HashFile   string            `json:"hash_file,omitempty"`
	CapHit     bool              `json:"hash_cap_hit"`
	Counters   map[string]int64  `json:"counters"`
	Samples    []any             `json:"samples"`
	Exhaustive []string          `json:"exhaustive"`
	Assume     []string          `json:"assumptions"`
	Notes      map[string]any    `json:"notes"`
	Known      map[string]int64  `json:"known_findings_hit"`
	KnownDesc  map[string]string `json:"known_findings_desc"`
	Completed  bool              `json:"completed"`
	Failed     bool              `json:"failed"`
	WallS      float64           `json:"wall_s"`
}

func (r *Recorder) flush() {
	if r.out == "" {
		return
	}
	r.mu.Lock()
	defer r.mu.Unlock()
	base := fmt.Sprintf("frag-%s-%d-%d", r.Test, r.shard, os.Getpid())
	fr := fragment{Property: r.Prop, Test: r.Test, Shard: r.shard, NShards: r.nshards, Tier: r.tier, Seed: r.seed,
		Evals: r.evals, NTEnum: r.ntEnum, NTHashed: len(r.hashes), CapHit: r.capHit, Counters: r.counters,
		Samples: r.samples, Exhaustive: r.exh, Assume: r.assume, Notes: r.notes, Known: r.knownHit,
		KnownDesc: map[string]string{}, Completed: !r.t.Failed(), Failed: r.failed, WallS: time.Since(r.start).Seconds()}
	for k := range r.knownHit {
		fr.KnownDesc[k] = r.known[k]
	}
	if len(r.hashes) > 0 {
		hs := make([]uint64, 0, len(r.hashes))
		for h := range r.hashes {
			hs = append(hs, h)
		}
		sort.Slice(hs, func(i, j int) bool { return hs[i] < hs[j] })
		buf := make([]byte, 8*len(hs))
		for i, h := range hs {
			binary.LittleEndian.PutUint64(buf[8*i:], h)
		}
		fr.HashFile = base + ".hashes"
		os.WriteFile(filepath.Join(r.out, fr.HashFile), buf, 0o644)
	}
	b, _ := json.Marshal(fr)
	os.WriteFile(filepath.Join(r.out, base+".json"), b, 0o644)
}

// ---- replay / regress dispatch ----

type ReplayFunc func(t *testing.T, r *Recorder, raw json.RawMessage)

var registry = map[string]ReplayFunc{}

func Register(test string, f ReplayFunc) { registry[test] = f }

// RunReplayFile runs one saved case through the plain (rapid-free) path of its test.
func RunReplayFile(t *testing.T, prop, path string) {
	b, err := os.ReadFile(path)
	if err != nil {
		t.Fatalf("HARNESS-HEALTH: cannot read replay %s: %v", path, err)
	}
	var rep Replay
	if err := json.Unmarshal(b, &rep); err != nil {
		t.Fatalf("HARNESS-HEALTH: bad replay %s: %v", path, err)
	}
	f, ok := registry[rep.Test]
	if !ok {
		t.Fatalf("HARNESS-HEALTH: no replay function for test %q (file %s)", rep.Test, path)
	}
	t.Run(filepath.Base(path), func(t *testing.T) {
		r := New(t, prop, rep.Test)
		r.out = "" // never write fragments/replays from a replay run
		f(t, r, rep.Case)
		if !t.Failed() {
			t.Logf("replay %s: case passes", path)
		}
	})
}

// StdReplayTests implements TestReplay / TestRegress for a property package.
//
//	VERIF_REPLAY=<file>  : run that file; failure => the driver prints VIOLATION replay=<file>
//	VERIF_REGRESS=<dir>  : run every *.json in dir; each must pass
func StdReplay(t *testing.T, prop string) {
	if p := os.Getenv("VERIF_REPLAY"); p != "" {
		RunReplayFile(t, prop, p)
		return
	}
	t.Skip("no VERIF_REPLAY")
}

func StdRegress(t *testing.T, prop string) {
	dir := os.Getenv("VERIF_REGRESS")
	if dir == "" {
		t.Skip("no VERIF_REGRESS")
	}
	files, _ := filepath.Glob(filepath.Join(dir, "*.json"))
	sort.Strings(files)
	rec := New(t, prop, "TestRegress")
	os.Setenv("VERIF_REGRESS_RUN", "1")
	defer os.Unsetenv("VERIF_REGRESS_RUN")
	for i, f := range files {
		if !rec.Mine(i) {
			continue
		}
		before := t.Failed()
		RunReplayFile(t, prop, f)
		rec.Eval(1)
		rec.Count("regress_files", 1)
		if t.Failed() && !before {
			// tell the driver which saved input failed
			fmt.Printf("REGRESS-FAIL file=%s\n", f)
		}
	}
}

// ---- panic classification ----

type Outcome struct {
	Panicked  bool   `json:"panicked"`
	Runtime   bool   `json:"runtime_error,omitempty"` // value implements runtime.Error
	IsString  bool   `json:"string_panic,omitempty"`  // value is a plain string
	IsError   bool   `json:"error_panic,omitempty"`   // value is a non-runtime error
	Text      string `json:"text,omitempty"`
	ValueType string `json:"type,omitempty"`
}

// Try runs f and classifies a panic, if any.
func Try(f func()) (o Outcome) {
	defer func() {
		if v := recover(); v != nil {
			o.Panicked = true
			o.ValueType = fmt.Sprintf("%T", v)
			switch x := v.(type) {
			case runtime.Error:
				o.Runtime = true
				o.Text = x.Error()
			case string:
				o.IsString = true
				o.Text = x
			case error:
				o.IsError = true
				o.Text = x.Error()
			default:
				o.Text = fmt.Sprint(v)
			}
		}
	}()
	f()
	return
}

func (o Outcome) String() string {
	if !o.Panicked {
		return "returned"
	}
	return fmt.Sprintf("panic(%s: %q)", o.ValueType, o.Text)
}

// ---- job table ----

// Job names a test function and how many shard processes the driver should start for it.
// Tag=true means the test lives in a file guarded by the `verif` build tag (needs hooks).
type Job struct {
	Test     string
	Quick    int // shards in the quick tier (0 = not run)
	Thorough int // shards in the thorough tier (0 = not run)
	Race     bool
}

// Main is called from TestMain. With VERIF_LIST=1 it prints the job table and exits.
func Main(m *testing.M, prop string, jobs []Job) {
	if os.Getenv("VERIF_LIST") != "" {
		tier := os.Getenv("VERIF_TIER")
		for _, j := range jobs {
			n := j.Quick
			if tier == "thorough" {
				n = j.Thorough
			}
			if n > 0 {
				fmt.Printf("JOB %s %d\n", j.Test, n)
			}
		}
		os.Exit(0)
	}
	os.Exit(m.Run())
}

// Rule states, for the evidence file, how this test generates cases and what makes one non-trivial.
func (r *Recorder) Rule(s string) { r.Note("rule", s) }
