// Package xmssref is an independent, deliberately naive implementation of the
// QRL flavour of XMSS (RFC-8391-like, n=32, w=16, single tree): it builds every
// leaf and the whole Merkle tree, keeps no traversal state, and shares no code
// with the library under test.
package xmssref

import (
	"crypto/sha256"
	"encoding/binary"

	"golang.org/x/crypto/sha3"
)

const (
	N    = 32
	W    = 16
	Len1 = 64
	Len2 = 3
	Len  = Len1 + Len2
)

type Hash int

const (
	SHA2_256 Hash = 0
	SHAKE128 Hash = 1
	SHAKE256 Hash = 2
)

// address: 8 big-endian words.
type addr [8]uint32

func (a addr) bytes() []byte {
	b := make([]byte, 32)
	for i, w := range a {
		binary.BigEndian.PutUint32(b[4*i:], w)
	}
	return b
}

func toByte32(v uint32) []byte {
	b := make([]byte, 32)
	binary.BigEndian.PutUint32(b[28:], v)
	return b
}

// core: H(toByte(type,32) || key || in) truncated/extended to 32 bytes.
func (h Hash) core(typ uint32, key, in []byte) []byte {
	buf := append(append(toByte32(typ), key...), in...)
	out := make([]byte, N)
	switch h {
	case SHA2_256:
		s := sha256.Sum256(buf)
		copy(out, s[:])
	case SHAKE128:
		sha3.ShakeSum128(out, buf)
	case SHAKE256:
		sha3.ShakeSum256(out, buf)
	default:
		panic("xmssref: unknown hash")
	}
	return out
}

func (h Hash) prf(key, in32 []byte) []byte { return h.core(3, key, in32) }

func xor(a, b []byte) []byte {
	o := make([]byte, len(a))
	for i := range a {
		o[i] = a[i] ^ b[i]
	}
	return o
}

// F: keyed, masked one-block hash (WOTS chains).
func (h Hash) f(in, pubSeed []byte, a addr) []byte {
	a[7] = 0
	key := h.prf(pubSeed, a.bytes())
	a[7] = 1
	mask := h.prf(pubSeed, a.bytes())
	return h.core(0, key, xor(in, mask))
}

// H: keyed, masked two-block hash (tree nodes and L-tree).
func (h Hash) h2(left, right, pubSeed []byte, a addr) []byte {
	a[7] = 0
	key := h.prf(pubSeed, a.bytes())
	a[7] = 1
	m0 := h.prf(pubSeed, a.bytes())
	a[7] = 2
	m1 := h.prf(pubSeed, a.bytes())
	in := append(append([]byte{}, left...), right...)
	return h.core(1, key, xor(in, append(m0, m1...)))
}

// WParams are the WOTS+ parameters for a Winternitz parameter w in {4,16,256}, by the formulas of RFC 8391 section
// 3.1.1 with n = 32: len1 = ceil(8n/lg w), len2 = floor(lg(len1*(w-1))/lg w)+1 (computed on integers here).
type WParams struct {
	W, LogW, Len1, Len2, Len int
}

func ParamsFor(w int) WParams {
	lg := map[int]int{4: 2, 16: 4, 256: 8}[w]
	if lg == 0 {
		panic("xmssref: w must be 4, 16 or 256")
	}
	len1 := (8*N + lg - 1) / lg
	// floor(log_w(len1*(w-1))) + 1 = number of base-w digits of len1*(w-1)
	len2 := 0
	for v := len1 * (w - 1); v > 0; v >>= uint(lg) {
		len2++
	}
	return WParams{W: w, LogW: lg, Len1: len1, Len2: len2, Len: len1 + len2}
}

var p16 = ParamsFor(16)

type Key struct {
	P       WParams // zero value means w = 16
	Hash    Hash
	Height  int
	SKSeed  []byte
	SKPRF   []byte
	PubSeed []byte
	// nodes[l][i] = node at level l (0 = leaves), index i
	nodes [][][]byte
}

func (k *Key) Root() []byte { return k.nodes[k.Height][0] }

func (k *Key) p() WParams {
	if k.P.W == 0 {
		return p16
	}
	return k.P
}

func (k *Key) chain(x []byte, start, steps int, a addr) []byte {
	out := append([]byte{}, x...)
	for i := start; i < start+steps && i < k.p().W; i++ {
		a[6] = uint32(i)
		out = k.Hash.f(out, k.PubSeed, a)
	}
	return out
}

func (k *Key) otsSeed(leaf uint32) []byte {
	a := addr{0, 0, 0, 0, leaf, 0, 0, 0}
	return k.Hash.prf(k.SKSeed, a.bytes())
}

func (k *Key) wotsSK(leaf uint32) [][]byte {
	seed := k.otsSeed(leaf)
	sk := make([][]byte, k.p().Len)
	for j := range sk {
		sk[j] = k.Hash.prf(seed, toByte32(uint32(j)))
	}
	return sk
}

func (k *Key) wotsPK(leaf uint32) [][]byte {
	sk := k.wotsSK(leaf)
	pk := make([][]byte, k.p().Len)
	for j := range pk {
		pk[j] = k.chain(sk[j], 0, k.p().W-1, addr{0, 0, 0, 0, leaf, uint32(j), 0, 0})
	}
	return pk
}

func lTree(h Hash, pk [][]byte, pubSeed []byte, leaf uint32) []byte {
	nodes := append([][]byte{}, pk...)
	height := uint32(0)
	for len(nodes) > 1 {
		var next [][]byte
		for i := 0; i+1 < len(nodes); i += 2 {
			next = append(next, h.h2(nodes[i], nodes[i+1], pubSeed, addr{0, 0, 0, 1, leaf, height, uint32(i / 2), 0}))
		}
		if len(nodes)%2 == 1 {
			next = append(next, nodes[len(nodes)-1])
		}
		nodes = next
		height++
	}
	return nodes[0]
}

func (k *Key) leaf(i uint32) []byte { return lTree(k.Hash, k.wotsPK(i), k.PubSeed, i) }

// NewKey expands the 48-byte seed and builds the complete tree.
func NewKey(seed []byte, height int, h Hash) *Key { return NewKeyW(seed, height, h, 16) }

// NewKeyW is NewKey for a Winternitz parameter w in {4,16,256} (the library only signs with w = 16 but verifies
// with any of the three).
func NewKeyW(seed []byte, height int, h Hash, w int) *Key {
	rnd := make([]byte, 96)
	sha3.ShakeSum256(rnd, seed)
	k := &Key{P: ParamsFor(w), Hash: h, Height: height, SKSeed: rnd[0:32], SKPRF: rnd[32:64], PubSeed: rnd[64:96]}
	k.nodes = make([][][]byte, height+1)
	k.nodes[0] = make([][]byte, 1<<uint(height))
	for i := range k.nodes[0] {
		k.nodes[0][i] = k.leaf(uint32(i))
	}
	for l := 1; l <= height; l++ {
		k.nodes[l] = make([][]byte, 1<<uint(height-l))
		for i := range k.nodes[l] {
			k.nodes[l][i] = k.Hash.h2(k.nodes[l-1][2*i], k.nodes[l-1][2*i+1], k.PubSeed,
				addr{0, 0, 0, 2, 0, uint32(l - 1), uint32(i), 0})
		}
	}
	return k
}


// baseW is RFC 8391 Algorithm 1: outLen base-w digits of x, most significant bits first.
func baseW(p WParams, x []byte, outLen int) []int {
	d := make([]int, 0, outLen)
	in, total, bits := 0, 0, 0
	for len(d) < outLen {
		if bits == 0 {
			total = int(x[in])
			in++
			bits = 8
		}
		bits -= p.LogW
		d = append(d, (total>>uint(bits))&(p.W-1))
	}
	return d
}

// DigitsW is the message-to-chain-lengths map of RFC 8391 Algorithm 5 / 6, applied literally for any of the three
// values of w: csum = sum(w-1-d_i); csum <<= 8 - ((len2*lg w) mod 8); append base_w(toByte(csum, ceil(len2*lg w/8)),
// len2). For w = 256 the formula shifts by a whole byte (the remainder is 0) and toByte keeps the low two bytes,
// so the two checksum digits are (csum mod 256, 0): that is what the formula says, and it is used as written.
func DigitsW(p WParams, msgHash []byte) []int {
	d := baseW(p, msgHash, p.Len1)
	csum := 0
	for _, x := range d {
		csum += p.W - 1 - x
	}
	csum <<= uint(8 - (p.Len2*p.LogW)%8)
	nb := (p.Len2*p.LogW + 7) / 8
	cb := make([]byte, nb)
	for i := nb - 1; i >= 0; i-- { // toByte: big-endian, low-order bytes kept
		cb[i] = byte(csum)
		csum >>= 8
	}
	return append(d, baseW(p, cb, p.Len2)...)
}

func (k *Key) msgHash(r []byte, idx uint32, msg []byte) []byte {
	key := append(append(append([]byte{}, r...), k.Root()...), toByte32(idx)...)
	return k.Hash.core(2, key, msg)
}

// Sign returns idx | R | WOTS signature | authentication path.
func (k *Key) Sign(idx uint32, msg []byte) []byte {
	sig := make([]byte, 4)
	binary.BigEndian.PutUint32(sig, idx)
	r := k.Hash.prf(k.SKPRF, toByte32(idx))
	sig = append(sig, r...)
	d := DigitsW(k.p(), k.msgHash(r, idx, msg))
	sk := k.wotsSK(idx)
	for j := 0; j < k.p().Len; j++ {
		sig = append(sig, k.chain(sk[j], 0, d[j], addr{0, 0, 0, 0, idx, uint32(j), 0, 0})...)
	}
	for l := 0; l < k.Height; l++ {
		sig = append(sig, k.nodes[l][(idx>>uint(l))^1]...)
	}
	return sig
}

// AuthPath of leaf idx.
func (k *Key) AuthPath(idx uint32) []byte {
	var out []byte
	for l := 0; l < k.Height; l++ {
		out = append(out, k.nodes[l][(idx>>uint(l))^1]...)
	}
	return out
}

// Verify is the specification-level verifier: it takes the parsed public key
// (hash, height, root, pubSeed) and answers whether sig is valid for msg.
func Verify(h Hash, height int, root, pubSeed, msg, sig []byte) bool {
	return VerifyW(p16, h, height, root, pubSeed, msg, sig)
}

// VerifyW is Verify for a chosen Winternitz parameter.
func VerifyW(p WParams, h Hash, height int, root, pubSeed, msg, sig []byte) bool {
	Len, W := p.Len, p.W
	if len(sig) != 4+N+Len*N+height*N {
		return false
	}
	idx := binary.BigEndian.Uint32(sig)
	r := sig[4 : 4+N]
	key := append(append(append([]byte{}, r...), root...), toByte32(idx)...)
	d := DigitsW(p, h.core(2, key, msg))
	k := &Key{P: p, Hash: h, PubSeed: pubSeed}
	pk := make([][]byte, Len)
	for j := 0; j < Len; j++ {
		pk[j] = k.chain(sig[36+j*N:36+(j+1)*N], d[j], W-1-d[j], addr{0, 0, 0, 0, idx, uint32(j), 0, 0})
	}
	node := lTree(h, pk, pubSeed, idx)
	auth := sig[36+Len*N:]
	// NOTE: the index is used as given (32 bits), like the scheme: bits above the height
	// still select left/right and enter the node address.
	i := idx
	for l := 0; l < height; l++ {
		sib := auth[l*N : (l+1)*N]
		a := addr{0, 0, 0, 2, 0, uint32(l), i >> 1, 0}
		if i&1 == 0 {
			node = h.h2(node, sib, pubSeed, a)
		} else {
			node = h.h2(sib, node, pubSeed, a)
		}
		i >>= 1
	}
	for j := range node {
		if node[j] != root[j] {
			return false
		}
	}
	return true
}

// NodeHash exposes the tree-node hash (children at level `level`, parent index `idx`).
func NodeHash(h Hash, left, right, pubSeed []byte, level, idx uint32) []byte {
	return h.h2(left, right, pubSeed, addr{0, 0, 0, 2, 0, level, idx, 0})
}

// Fabricate builds a (signature, root, pubSeed) that satisfies the verification
// equation for msg at leaf index idx of a height-h tree WITHOUT building the tree: the
// WOTS key pair at idx is derived from skSeed, the authentication-path siblings are the
// caller's arbitrary 32-byte values, and the root is whatever the path hashes to. Used to
// present spec-valid triples for heights and indices no real key can afford (h up to 30).
func Fabricate(h Hash, height int, idx uint32, msg, skSeed, pubSeed, r []byte, siblings [][]byte, tamperBit int) (sig, root []byte) {
	return FabricateW(p16, h, height, idx, msg, skSeed, pubSeed, r, siblings, tamperBit)
}

// FabricateW is Fabricate for a chosen Winternitz parameter.
func FabricateW(p WParams, h Hash, height int, idx uint32, msg, skSeed, pubSeed, r []byte, siblings [][]byte, tamperBit int) (sig, root []byte) {
	Len := p.Len
	k := &Key{P: p, Hash: h, Height: height, SKSeed: skSeed, PubSeed: pubSeed}
	node := k.leaf(idx)
	i := idx
	for l := 0; l < height; l++ {
		a := addr{0, 0, 0, 2, 0, uint32(l), i >> 1, 0}
		if i&1 == 0 {
			node = h.h2(node, siblings[l], pubSeed, a)
		} else {
			node = h.h2(siblings[l], node, pubSeed, a)
		}
		i >>= 1
	}
	root = append([]byte{}, node...)
	if tamperBit >= 0 {
		// the CLAIMED root (goes into the public key and keys the message hash) differs from the
		// root the path really hashes to in exactly one bit: every step of verification succeeds
		// except the final comparison
		root[tamperBit/8] ^= 1 << uint(tamperBit%8)
	}
	sig = make([]byte, 4)
	binary.BigEndian.PutUint32(sig, idx)
	sig = append(sig, r...)
	key := append(append(append([]byte{}, r...), root...), toByte32(idx)...)
	d := DigitsW(p, h.core(2, key, msg))
	sk := k.wotsSK(idx)
	for j := 0; j < Len; j++ {
		sig = append(sig, k.chain(sk[j], 0, d[j], addr{0, 0, 0, 0, idx, uint32(j), 0, 0})...)
	}
	for l := 0; l < height; l++ {
		sig = append(sig, siblings[l]...)
	}
	return sig, root
}

// SigLen is the signature length for a tree of the given height.
func SigLen(height int) int { return 4 + N + Len*N + height*N }

// SigLenW is SigLen for a chosen Winternitz parameter.
func SigLenW(p WParams, height int) int { return 4 + N + p.Len*N + height*N }
