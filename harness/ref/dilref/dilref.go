// Package dilref is a specification-level implementation of CRYSTALS-Dilithium
// (round 3.1 parameter set 5) written for clarity, not speed: coefficients are
// plain integers reduced with %, the NTT is literal evaluation at the 256 roots in
// the order the specification defines, products in R_q are schoolbook, encodings are
// produced by a generic LSB-first bit writer. It shares no code with the library.
package dilref

import (
	"golang.org/x/crypto/sha3"
)

const (
	Q      = 8380417
	D      = 13
	Tau    = 60
	Gamma1 = 1 << 19
	Gamma2 = (Q - 1) / 32
	K      = 8
	L      = 7
	Eta    = 2
	Beta   = Tau * Eta
	Omega  = 75
	N      = 256

	PKBytes  = 32 + K*320
	SKBytes  = 3*32 + (L+K)*96 + K*416
	SigBytes = 32 + L*640 + Omega + K
)

type Poly [N]int64 // always kept in [0,Q) unless stated

func mod(a int64) int64 {
	a %= Q
	if a < 0 {
		a += Q
	}
	return a
}

// centred representative in (-Q/2, Q/2]
func centre(a int64) int64 {
	a = mod(a)
	if a > (Q-1)/2 {
		a -= Q
	}
	return a
}

func powmod(b, e int64) int64 {
	r := int64(1)
	b = mod(b)
	for ; e > 0; e >>= 1 {
		if e&1 == 1 {
			r = r * b % Q
		}
		b = b * b % Q
	}
	return r
}

func brv8(x int) int {
	r := 0
	for i := 0; i < 8; i++ {
		r = r<<1 | (x>>uint(i))&1
	}
	return r
}

var roots [N]int64  // roots[m]: evaluation point of NTT output slot m
var pw [N][N]int64  // pw[m][j] = roots[m]^j
var ipw [N][N]int64 // ipw[m][j] = roots[m]^-j / 256

func init() {
	for i := 0; i < 128; i++ {
		r := powmod(1753, int64(brv8(128+i)))
		roots[2*i] = r
		roots[2*i+1] = mod(-r)
	}
	inv256 := powmod(256, Q-2)
	for m := 0; m < N; m++ {
		inv := powmod(roots[m], Q-2)
		p, ip := int64(1), inv256
		for j := 0; j < N; j++ {
			pw[m][j], ipw[m][j] = p, ip
			p = p * roots[m] % Q
			ip = ip * inv % Q
		}
	}
}

// NTT: slot m = a(roots[m]).
func NTT(a *Poly) (out Poly) {
	for m := 0; m < N; m++ {
		var s int64
		for j := 0; j < N; j++ {
			s = (s + a[j]*pw[m][j]) % Q
		}
		out[m] = s
	}
	return
}

func INTT(a *Poly) (out Poly) {
	for j := 0; j < N; j++ {
		var s int64
		for m := 0; m < N; m++ {
			s = (s + a[m]*ipw[m][j]) % Q
		}
		out[j] = s
	}
	return
}

// MulSchool: negacyclic schoolbook product in Z_q[X]/(X^256+1).
func MulSchool(a, b *Poly) (out Poly) {
	var acc [N]int64
	for i := 0; i < N; i++ {
		if a[i] == 0 {
			continue
		}
		for j := 0; j < N; j++ {
			p := a[i] * b[j] % Q
			if i+j < N {
				acc[i+j] = (acc[i+j] + p) % Q
			} else {
				acc[i+j-N] = (acc[i+j-N] - p + Q) % Q
			}
		}
	}
	return Poly(acc)
}

func add(a, b *Poly) (o Poly) {
	for i := range o {
		o[i] = mod(a[i] + b[i])
	}
	return
}
func sub(a, b *Poly) (o Poly) {
	for i := range o {
		o[i] = mod(a[i] - b[i])
	}
	return
}

func normInf(a *Poly) int64 {
	var m int64
	for _, c := range a {
		c = centre(c)
		if c < 0 {
			c = -c
		}
		if c > m {
			m = c
		}
	}
	return m
}

// ---- rounding (spec section 2.4 / Figure 3) ----

func Power2Round(r int64) (r1, r0 int64) {
	r = mod(r)
	r0 = r % (1 << D)
	if r0 > 1<<(D-1) {
		r0 -= 1 << D
	}
	return (r - r0) >> D, r0
}

func Decompose(r int64) (r1, r0 int64) {
	const alpha = 2 * Gamma2
	r = mod(r)
	r0 = r % alpha
	if r0 > alpha/2 {
		r0 -= alpha
	}
	if r-r0 == Q-1 {
		return 0, r0 - 1
	}
	return (r - r0) / alpha, r0
}

func HighBits(r int64) int64 { r1, _ := Decompose(r); return r1 }
func LowBits(r int64) int64  { _, r0 := Decompose(r); return r0 }

func MakeHint(z, r int64) int64 {
	if HighBits(r) != HighBits(r+z) {
		return 1
	}
	return 0
}

func UseHint(h, r int64) int64 {
	const m = (Q - 1) / (2 * Gamma2)
	r1, r0 := Decompose(r)
	if h == 1 {
		if r0 > 0 {
			return (r1 + 1) % m
		}
		return (r1 - 1 + m) % m
	}
	return r1
}

// ---- bit packing ----

type bitWriter struct {
	out  []byte
	acc  uint64
	bits uint
}

func (w *bitWriter) put(v uint64, n uint) {
	w.acc |= v << w.bits
	w.bits += n
	for w.bits >= 8 {
		w.out = append(w.out, byte(w.acc))
		w.acc >>= 8
		w.bits -= 8
	}
}

type bitReader struct {
	in   []byte
	acc  uint64
	bits uint
}

func (r *bitReader) get(n uint) uint64 {
	for r.bits < n {
		r.acc |= uint64(r.in[0]) << r.bits
		r.in = r.in[1:]
		r.bits += 8
	}
	v := r.acc & (1<<n - 1)
	r.acc >>= n
	r.bits -= n
	return v
}

func packPoly(p *Poly, bits uint, f func(c int64) uint64) []byte {
	w := &bitWriter{}
	for _, c := range p {
		w.put(f(c), bits)
	}
	return w.out
}

func unpackPoly(b []byte, bits uint, f func(v uint64) int64) (p Poly) {
	r := &bitReader{in: b}
	for i := range p {
		p[i] = f(r.get(bits))
	}
	return
}

func PackT1(p *Poly) []byte { return packPoly(p, 10, func(c int64) uint64 { return uint64(c) }) }
func PackT0(p *Poly) []byte {
	return packPoly(p, 13, func(c int64) uint64 { return uint64(1<<(D-1) - centre(c)) })
}
func PackEta(p *Poly) []byte {
	return packPoly(p, 3, func(c int64) uint64 { return uint64(Eta - centre(c)) })
}
func PackZ(p *Poly) []byte {
	return packPoly(p, 20, func(c int64) uint64 { return uint64(Gamma1 - centre(c)) })
}
func PackW1(p *Poly) []byte { return packPoly(p, 4, func(c int64) uint64 { return uint64(c) }) }

func UnpackT1(b []byte) Poly { return unpackPoly(b, 10, func(v uint64) int64 { return int64(v) }) }
func UnpackZ(b []byte) Poly {
	return unpackPoly(b, 20, func(v uint64) int64 { return mod(Gamma1 - int64(v)) })
}

// ---- samplers ----

func shake128(parts ...[]byte) sha3.ShakeHash {
	h := sha3.NewShake128()
	for _, p := range parts {
		h.Write(p)
	}
	return h
}
func shake256(parts ...[]byte) sha3.ShakeHash {
	h := sha3.NewShake256()
	for _, p := range parts {
		h.Write(p)
	}
	return h
}
func squeeze(h sha3.ShakeHash, n int) []byte { b := make([]byte, n); h.Read(b); return b }
func le16(v int) []byte                      { return []byte{byte(v), byte(v >> 8)} }

func RejUniform(stream func(int) []byte) (p Poly, rejected int, hitQ bool) {
	for i := 0; i < N; {
		b := stream(3)
		t := int64(b[0]) | int64(b[1])<<8 | int64(b[2]&0x7f)<<16
		if t == Q || t == Q-1 {
			hitQ = true
		}
		if t < Q {
			p[i] = t
			i++
		} else {
			rejected++
		}
	}
	return
}

func RejEta(stream func(int) []byte) (p Poly) {
	for i := 0; i < N; {
		b := stream(1)[0]
		for _, t := range []int64{int64(b & 15), int64(b >> 4)} {
			if t < 15 && i < N {
				p[i] = mod(Eta - t%5)
				i++
			}
		}
	}
	return
}

func ExpandA(rho []byte) (a [K][L]Poly) {
	for i := 0; i < K; i++ {
		for j := 0; j < L; j++ {
			h := shake128(rho, []byte{byte(j), byte(i)})
			a[i][j], _, _ = RejUniform(func(n int) []byte { return squeeze(h, n) })
		}
	}
	return
}

func SampleInBall(seed []byte) (c Poly) {
	h := shake256(seed)
	sb := squeeze(h, 8)
	var signs uint64
	for i := 0; i < 8; i++ {
		signs |= uint64(sb[i]) << (8 * uint(i))
	}
	for i := N - Tau; i < N; i++ {
		var j int
		for {
			j = int(squeeze(h, 1)[0])
			if j <= i {
				break
			}
		}
		c[i] = c[j]
		if signs&1 == 1 {
			c[j] = Q - 1
		} else {
			c[j] = 1
		}
		signs >>= 1
	}
	return
}

func ExpandMask(rhoP []byte, kappa int) (y [L]Poly) {
	for i := 0; i < L; i++ {
		h := shake256(rhoP, le16(L*kappa+i))
		y[i] = UnpackZ(squeeze(h, 640))
	}
	return
}

// ---- key generation ----

type Keys struct {
	PK, SK       []byte
	Rho, Key, Tr []byte
	S1           [L]Poly
	S2, T0, T1   [K]Poly
	AS1, T       [K]Poly // A*s1 and t = A*s1 + s2, both in [0,q): kept for the boundary classification of keys
	A            [K][L]Poly // NTT domain
}

func mulAVec(a *[K][L]Poly, v *[L]Poly) (w [K]Poly) {
	var vh [L]Poly
	for j := 0; j < L; j++ {
		vh[j] = NTT(&v[j])
	}
	for i := 0; i < K; i++ {
		var acc Poly
		for j := 0; j < L; j++ {
			for m := 0; m < N; m++ {
				acc[m] = (acc[m] + a[i][j][m]*vh[j][m]) % Q
			}
		}
		w[i] = INTT(&acc)
	}
	return
}

func KeyGen(zeta []byte) *Keys {
	h := shake256(zeta)
	k := &Keys{Rho: squeeze(h, 32)}
	rhoP := squeeze(h, 64)
	k.Key = squeeze(h, 32)
	k.A = ExpandA(k.Rho)
	for i := 0; i < L; i++ {
		hh := shake256(rhoP, le16(i))
		k.S1[i] = RejEta(func(n int) []byte { return squeeze(hh, n) })
	}
	for i := 0; i < K; i++ {
		hh := shake256(rhoP, le16(L+i))
		k.S2[i] = RejEta(func(n int) []byte { return squeeze(hh, n) })
	}
	t := mulAVec(&k.A, &k.S1)
	k.PK = append([]byte{}, k.Rho...)
	for i := 0; i < K; i++ {
		k.AS1[i] = t[i]
		t[i] = add(&t[i], &k.S2[i])
		k.T[i] = t[i]
		for j := 0; j < N; j++ {
			r1, r0 := Power2Round(t[i][j])
			k.T1[i][j], k.T0[i][j] = r1, mod(r0)
		}
		k.PK = append(k.PK, PackT1(&k.T1[i])...)
	}
	k.Tr = squeeze(shake256(k.PK), 32)
	k.SK = append(append(append([]byte{}, k.Rho...), k.Key...), k.Tr...)
	for i := 0; i < L; i++ {
		k.SK = append(k.SK, PackEta(&k.S1[i])...)
	}
	for i := 0; i < K; i++ {
		k.SK = append(k.SK, PackEta(&k.S2[i])...)
	}
	for i := 0; i < K; i++ {
		k.SK = append(k.SK, PackT0(&k.T0[i])...)
	}
	return k
}

// ---- signing ----

// Attempt records why a rejection-loop iteration ended and how close each test came.
type Attempt struct {
	Kappa         int
	ZNorm, R0Norm int64 // ‖z‖∞ , ‖LowBits(w-cs2)‖∞
	R1Mismatch    bool  // HighBits(w-cs2) != w1 somewhere
	CT0Norm       int64
	Hints         int
	Reject        string // "", "z", "r0", "ct0", "hints"
}

type Skip struct{ Z, R0, CT0, Hints bool } // checks a *dishonest* signer leaves out

func encodeHints(h *[K]Poly) []byte {
	out := make([]byte, Omega+K)
	k := 0
	for i := 0; i < K; i++ {
		for j := 0; j < N; j++ {
			if h[i][j] != 0 {
				if k < Omega {
					out[k] = byte(j)
				}
				k++
			}
		}
		out[Omega+i] = byte(k)
	}
	return out
}

// Sign is deterministic Dilithium signing. With a non-zero Skip it behaves as a signer
// who omits the named checks (used to manufacture signatures only the verifier can stop).
// wantReject, when non-empty, makes the dishonest signer return the first attempt whose
// ONLY failing condition is the named one.
func (k *Keys) Sign(msg []byte, wantReject string) (sig []byte, trace []Attempt) {
	mu := squeeze(shake256(k.Tr, msg), 64)
	rhoP := squeeze(shake256(k.Key, mu), 64)
	for kappa := 0; ; kappa++ {
		if kappa > 2000 {
			return nil, trace
		}
		y := ExpandMask(rhoP, kappa)
		w := mulAVec(&k.A, &y)
		var w1 [K]Poly
		var w1pack []byte
		for i := 0; i < K; i++ {
			for j := 0; j < N; j++ {
				w1[i][j] = HighBits(w[i][j])
			}
			w1pack = append(w1pack, PackW1(&w1[i])...)
		}
		ctilde := squeeze(shake256(mu, w1pack), 32)
		if len(wantReject) > 7 && wantReject[:7] == "ctweak=" {
			// a signer who holds the key and deviates in ONE step: the transmitted challenge differs from the honest
			// H(mu || w1) in one byte, and that transmitted value is used consistently for z, the checks and the hints.
			// The verifier recomputes the honest challenge from the same w1: only its comparison can tell.
			pos, x := 0, 0
			i := 7
			for ; i < len(wantReject) && wantReject[i] != ':'; i++ {
				pos = pos*10 + int(wantReject[i]-'0')
			}
			for i++; i < len(wantReject); i++ {
				x = x*10 + int(wantReject[i]-'0')
			}
			ctilde = append([]byte{}, ctilde...)
			ctilde[pos%32] ^= byte(x)
		}
		c := SampleInBall(ctilde)
		at := Attempt{Kappa: kappa}
		var z [L]Poly
		for i := 0; i < L; i++ {
			cs1 := MulSchool(&c, &k.S1[i])
			z[i] = add(&y[i], &cs1)
			if n := normInf(&z[i]); n > at.ZNorm {
				at.ZNorm = n
			}
		}
		var h [K]Poly
		for i := 0; i < K; i++ {
			cs2 := MulSchool(&c, &k.S2[i])
			ct0 := MulSchool(&c, &k.T0[i])
			r := sub(&w[i], &cs2)
			if n := normInf(&ct0); n > at.CT0Norm {
				at.CT0Norm = n
			}
			for j := 0; j < N; j++ {
				r1, r0 := Decompose(r[j])
				if r1 != w1[i][j] {
					at.R1Mismatch = true
				}
				if r0 < 0 {
					r0 = -r0
				}
				if r0 > at.R0Norm {
					at.R0Norm = r0
				}
				// h = MakeHint(-ct0, w - cs2 + ct0)
				h[i][j] = MakeHint(mod(-ct0[j]), r[j]+ct0[j])
				at.Hints += int(h[i][j])
			}
		}
		zBad := at.ZNorm >= Gamma1-Beta
		r0Bad := at.R0Norm >= Gamma2-Beta || at.R1Mismatch
		ct0Bad := at.CT0Norm >= Gamma2
		hBad := at.Hints > Omega
		switch {
		case zBad:
			at.Reject = "z"
		case r0Bad:
			at.Reject = "r0"
		case ct0Bad:
			at.Reject = "ct0"
		case hBad:
			at.Reject = "hints"
		}
		trace = append(trace, at)
		take := at.Reject == ""
		if len(wantReject) > 7 && wantReject[:7] == "ctweak=" {
			// keep the honest acceptance rule (all four checks pass under the tweaked challenge)
		} else if len(wantReject) > 6 && wantReject[:6] == "kappa=" {
			n := 0
			for _, ch := range wantReject[6:] {
				n = n*10 + int(ch-'0')
			}
			take = kappa == n && at.ZNorm <= Gamma1 && at.Hints <= Omega
			if kappa > n {
				return nil, trace
			}
		} else if wantReject != "" {
			only := map[string]bool{"z": zBad && !r0Bad && !ct0Bad && !hBad,
				"r0":    !zBad && r0Bad && !ct0Bad && !hBad,
				"hints": !zBad && !r0Bad && !ct0Bad && hBad}[wantReject]
			take = only
			if wantReject == "z" && at.ZNorm > Gamma1 { // not encodable in 20 bits
				take = false
			}
		}
		if !take {
			continue
		}
		sig = append([]byte{}, ctilde...)
		for i := 0; i < L; i++ {
			sig = append(sig, PackZ(&z[i])...)
		}
		sig = append(sig, encodeHints(&h)...)
		return sig, trace
	}
}

// ---- verification (spec Figure 4) ----

// DecodeHints returns ok=false for any non-canonical hint encoding.
func DecodeHints(b []byte) (h [K]Poly, ok bool) {
	k := 0
	for i := 0; i < K; i++ {
		end := int(b[Omega+i])
		if end < k || end > Omega {
			return h, false
		}
		for j := k; j < end; j++ {
			if j > k && b[j] <= b[j-1] {
				return h, false
			}
			h[i][b[j]] = 1
		}
		k = end
	}
	for j := k; j < Omega; j++ {
		if b[j] != 0 {
			return h, false
		}
	}
	return h, true
}

func Verify(pk, msg, sig []byte) bool {
	if len(pk) != PKBytes || len(sig) != SigBytes {
		return false
	}
	rho := pk[:32]
	ctilde := sig[:32]
	var z [L]Poly
	for i := 0; i < L; i++ {
		z[i] = UnpackZ(sig[32+640*i : 32+640*(i+1)])
		if normInf(&z[i]) >= Gamma1-Beta {
			return false
		}
	}
	h, ok := DecodeHints(sig[32+640*L:])
	if !ok {
		return false
	}
	a := ExpandA(rho)
	mu := squeeze(shake256(squeeze(shake256(pk), 32), msg), 64)
	c := SampleInBall(ctilde)
	az := mulAVec(&a, &z)
	var w1pack []byte
	cnt := 0
	for i := 0; i < K; i++ {
		t1 := UnpackT1(pk[32+320*i : 32+320*(i+1)])
		for j := range t1 {
			t1[j] = t1[j] << D % Q
		}
		ct1 := MulSchool(&c, &t1)
		r := sub(&az[i], &ct1)
		var w1 Poly
		for j := 0; j < N; j++ {
			w1[j] = UseHint(h[i][j], r[j])
			cnt += int(h[i][j])
		}
		w1pack = append(w1pack, PackW1(&w1)...)
	}
	if cnt > Omega {
		return false
	}
	c2 := squeeze(shake256(mu, w1pack), 32)
	for i := range c2 {
		if c2[i] != ctilde[i] {
			return false
		}
	}
	return true
}

// ---- buffer-level samplers and single-polynomial expanders (for direct comparison with the
// library's unexported functions through the verif aliases) ----

// RejUniformBuf consumes whole 3-byte groups of buf while fewer than max coefficients were
// accepted: 23-bit little-endian candidates, accepted iff < Q.
func RejUniformBuf(buf []byte, max int) (out []int64) {
	for pos := 0; len(out) < max && pos+3 <= len(buf); pos += 3 {
		t := int64(buf[pos]) | int64(buf[pos+1])<<8 | int64(buf[pos+2]&0x7f)<<16
		if t < Q {
			out = append(out, t)
		}
	}
	return
}

// RejEtaBuf consumes bytes of buf while fewer than max coefficients were accepted: low nibble
// first, a nibble t < 15 yields eta - (t mod 5), returned as a centred value.
func RejEtaBuf(buf []byte, max int) (out []int64) {
	for pos := 0; len(out) < max && pos < len(buf); pos++ {
		for _, t := range []int64{int64(buf[pos] & 15), int64(buf[pos] >> 4)} {
			if t < 15 && len(out) < max {
				out = append(out, Eta-t%5)
			}
		}
	}
	return
}

// ExpandAEntry is A[i][j] (NTT domain).
func ExpandAEntry(rho []byte, i, j int) Poly {
	h := shake128(rho, []byte{byte(j), byte(i)})
	p, _, _ := RejUniform(func(n int) []byte { return squeeze(h, n) })
	return p
}

// SampleEta is the eta-bounded secret polynomial for (rho', nonce), coefficients mod Q.
func SampleEta(rhoP []byte, nonce int) Poly {
	h := shake256(rhoP, le16(nonce))
	return RejEta(func(n int) []byte { return squeeze(h, n) })
}

// ExpandMaskPoly is the mask polynomial for (rho', nonce), coefficients mod Q.
func ExpandMaskPoly(rhoP []byte, nonce int) Poly {
	return UnpackZ(squeeze(shake256(rhoP, le16(nonce)), 640))
}

// Centre exposes the centred representative.
func Centre(a int64) int64 { return centre(a) }

// Mod exposes reduction to [0,Q).
func Mod(a int64) int64 { return mod(a) }

func UnpackEta(b []byte) Poly {
	return unpackPoly(b, 3, func(v uint64) int64 { return mod(Eta - int64(v)) })
}
func UnpackT0(b []byte) Poly {
	return unpackPoly(b, 13, func(v uint64) int64 { return mod(1<<(D-1) - int64(v)) })
}
func UnpackW1(b []byte) Poly { return unpackPoly(b, 4, func(v uint64) int64 { return int64(v) }) }

// EncodeHints is the specification's hint encoding (ordered positions, cumulative counts, zero padding).
func EncodeHints(h *[K]Poly) []byte { return encodeHints(h) }

// KeysFromSK parses a packed secret key (and the matching public key for t1) into a Keys value
// that can sign; pk may be nil when only signing is needed.
func KeysFromSK(sk, pk []byte) *Keys {
	k := &Keys{SK: append([]byte{}, sk...), PK: append([]byte{}, pk...)}
	k.Rho, k.Key, k.Tr = sk[0:32], sk[32:64], sk[64:96]
	off := 96
	for i := 0; i < L; i++ {
		k.S1[i] = UnpackEta(sk[off : off+96])
		off += 96
	}
	for i := 0; i < K; i++ {
		k.S2[i] = UnpackEta(sk[off : off+96])
		off += 96
	}
	for i := 0; i < K; i++ {
		k.T0[i] = UnpackT0(sk[off : off+416])
		off += 416
	}
	k.A = ExpandA(k.Rho)
	return k
}
