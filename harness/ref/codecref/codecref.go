// Package codecref holds the reference formulas for the mnemonic codec, the QRL
// descriptor packing and the three address derivations. It imports nothing from the
// library; the word list is passed in by the caller (after the caller has checked the
// list's finite invariants).
package codecref

import (
	"crypto/sha256"
	"errors"
	"strings"

	"golang.org/x/crypto/sha3"
)

// Encode turns bytes (length a multiple of 3) into words: every 12-bit group, most
// significant bits first, indexes the list.
func Encode(b []byte, words []string) (string, error) {
	if len(b)%3 != 0 {
		return "", errors.New("length not a multiple of 3")
	}
	var out []string
	for i := 0; i < len(b); i += 3 {
		v := uint32(b[i])<<16 | uint32(b[i+1])<<8 | uint32(b[i+2])
		out = append(out, words[v>>12], words[v&0xfff])
	}
	return strings.Join(out, " "), nil
}

// Decode is the strict inverse: words separated by exactly one space, all in the list,
// an even number of them.
func Decode(p string, words []string) ([]byte, error) {
	idx := make(map[string]int, len(words))
	for i, w := range words {
		idx[w] = i
	}
	ws := strings.Split(p, " ")
	if len(ws)%2 != 0 {
		return nil, errors.New("odd word count")
	}
	var out []byte
	for i := 0; i < len(ws); i += 2 {
		a, ok1 := idx[ws[i]]
		b, ok2 := idx[ws[i+1]]
		if !ok1 || !ok2 {
			return nil, errors.New("unknown word")
		}
		v := uint32(a)<<12 | uint32(b)
		out = append(out, byte(v>>16), byte(v>>8), byte(v))
	}
	return out, nil
}

// Desc packs the four descriptor fields into the 3-byte descriptor.
func Desc(hash, sigType, height, addrFormat uint) [3]byte {
	return [3]byte{byte(sigType<<4 | hash&0xf), byte(addrFormat<<4 | (height>>1)&0xf), 0}
}

// ParseDesc returns hash, sigType, height, addrFormat.
func ParseDesc(d []byte) (hash, sigType, height, addrFormat uint) {
	return uint(d[0] & 0xf), uint(d[0] >> 4), uint(d[1]&0xf) * 2, uint(d[1] >> 4)
}

func shake256(in []byte, n int) []byte {
	out := make([]byte, n)
	sha3.ShakeSum256(out, in)
	return out
}

// XMSSAddress = descriptor (3) || last 17 bytes of SHAKE256-32(pk).
func XMSSAddress(pk []byte) [20]byte {
	var a [20]byte
	a[0], a[1], a[2] = pk[0], pk[1], 0
	copy(a[3:], shake256(pk, 32)[15:])
	return a
}

// DilithiumAddress = 0x10 || last 19 bytes of SHAKE256-32(pk).
func DilithiumAddress(pk []byte) [20]byte {
	var a [20]byte
	a[0] = 1 << 4
	copy(a[1:], shake256(pk, 32)[13:])
	return a
}

// LegacyXMSSAddress = descriptor (3) || SHA256(pk) || last 4 bytes of SHA256(first 35 bytes).
func LegacyXMSSAddress(pk []byte) [39]byte {
	var a [39]byte
	a[0], a[1], a[2] = pk[0], pk[1], 0
	h := sha256.Sum256(pk)
	copy(a[3:], h[:])
	c := sha256.Sum256(a[:35])
	copy(a[35:], c[28:])
	return a
}

// LegacyValid: supported address format and matching checksum.
func LegacyValid(a []byte) bool {
	if len(a) != 39 || a[1]>>4 != 0 {
		return false
	}
	c := sha256.Sum256(a[:35])
	for i := 0; i < 4; i++ {
		if a[35+i] != c[28+i] {
			return false
		}
	}
	return true
}
