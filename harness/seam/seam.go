//go:build verif

// Package seam drives the library's tree traversal with cheap leaves (the verif leaf seam)
// and provides the reference: the complete Merkle tree over the same leaves, built level by
// level with xmssref.NodeHash. Shared by C01, C02, C08 and C09.
package seam

import (
	"crypto/sha256"
	"encoding/binary"
	"fmt"
	"runtime"
	"sync"

	"github.com/theQRL/go-qrllib/xmss"
	"verifharness/pu"
	"verifharness/ref/xmssref"
)

// Leaf is the cheap leaf: SHA256("leaf" || hash id || index).
func Leaf(hf xmss.HashFunction, out []byte, idx uint32) {
	var b [9]byte
	copy(b[:4], "leaf")
	b[4] = byte(hf)
	binary.BigEndian.PutUint32(b[5:], idx)
	s := sha256.Sum256(b[:])
	copy(out, s[:])
}

// On installs the override; Off removes it (real WOTS/L-tree leaves again).
func On() {
	xmss.VerifLeafOverride = func(hf xmss.HashFunction, leaf []uint8, idx uint32) { Leaf(hf, leaf, idx) }
}
func Off() { xmss.VerifLeafOverride = nil }

// Tree is the full reference tree: Level[l] holds 2^(h-l) nodes of 32 bytes.
type Tree struct {
	H     int
	Level [][]byte
}

func (t *Tree) Node(l int, i uint32) []byte { return t.Level[l][32*int(i) : 32*int(i)+32] }
func (t *Tree) Root() []byte                { return t.Level[t.H][:32] }

// Auth returns the authentication path of leaf idx: sibling at every level.
func (t *Tree) Auth(idx uint32) []byte {
	out := make([]byte, 0, 32*t.H)
	for l := 0; l < t.H; l++ {
		out = append(out, t.Node(l, (idx>>uint(l))^1)...)
	}
	return out
}

// AuthEqual compares without allocating.
func (t *Tree) AuthEqual(idx uint32, auth []byte) (bool, int) {
	if len(auth) != 32*t.H {
		return false, -1
	}
	for l := 0; l < t.H; l++ {
		n := t.Node(l, (idx>>uint(l))^1)
		for k := 0; k < 32; k++ {
			if auth[32*l+k] != n[k] {
				return false, l
			}
		}
	}
	return true, 0
}

func parallel(n int, f func(lo, hi int)) {
	w := runtime.GOMAXPROCS(0)
	if n < 4096 || w < 2 {
		f(0, n)
		return
	}
	var wg sync.WaitGroup
	chunk := (n + w - 1) / w
	for lo := 0; lo < n; lo += chunk {
		hi := lo + chunk
		if hi > n {
			hi = n
		}
		wg.Add(1)
		go func(lo, hi int) { defer wg.Done(); f(lo, hi) }(lo, hi)
	}
	wg.Wait()
}

// Build computes the reference tree for (hash, height, pubSeed).
func Build(hf xmss.HashFunction, h int, pubSeed []byte) *Tree {
	t := &Tree{H: h, Level: make([][]byte, h+1)}
	n := 1 << uint(h)
	t.Level[0] = make([]byte, 32*n)
	parallel(n, func(lo, hi int) {
		for i := lo; i < hi; i++ {
			Leaf(hf, t.Level[0][32*i:32*i+32], uint32(i))
		}
	})
	rh := pu.RefHash(hf)
	for l := 1; l <= h; l++ {
		m := 1 << uint(h-l)
		t.Level[l] = make([]byte, 32*m)
		prev := t.Level[l-1]
		cur := t.Level[l]
		parallel(m, func(lo, hi int) {
			for i := lo; i < hi; i++ {
				copy(cur[32*i:], xmssref.NodeHash(rh, prev[64*i:64*i+32], prev[64*i+32:64*i+64], pubSeed, uint32(l-1), uint32(i)))
			}
		})
	}
	return t
}

var cache = map[string]*Tree{}
var cacheMu sync.Mutex

// Cached returns (building once per process) the tree for the key parameters.
func Cached(hf xmss.HashFunction, h int, pubSeed []byte) *Tree {
	k := fmt.Sprintf("%d/%d/%x", hf, h, pubSeed)
	cacheMu.Lock()
	defer cacheMu.Unlock()
	if t, ok := cache[k]; ok {
		return t
	}
	t := Build(hf, h, pubSeed)
	cache[k] = t
	return t
}
